"""C27 mount-resplit: a mount of a directory with a blank in its name is split into several argv items.
Run: /venv/bin/python repro-C27-mount-resplit.py   (uses a fake `docker` that prints its argv)"""
import os, stat, sys, tempfile
sys.path.insert(0, os.environ.get("VERIF_REPO", "/repo"))
os.environ["NO_ET"] = "true"
from pathlib import Path
from fileformats.generic import File
from pydra.compose import shell
from pydra.engine.submitter import Submitter
from pydra.environments import docker

d = Path(tempfile.mkdtemp())
(d / "bin").mkdir()
fake = d / "bin" / "docker"
fake.write_text("#!/bin/sh\nfor a in \"$@\"; do printf '[%s]\\n' \"$a\"; done\n")
fake.chmod(fake.stat().st_mode | stat.S_IEXEC)
os.environ["PATH"] = f"{d / 'bin'}:{os.environ['PATH']}"
(d / "sp ace").mkdir()
(d / "sp ace" / "in.txt").write_text("x")
T = shell.define("cat", inputs=[shell.arg(name="f", type=File, argstr="", position=1)])
with Submitter(worker="debug", environment=docker.Environment(image="busybox"), cache_root=d / "cache") as s:
    out = s(T(f=d / "sp ace" / "in.txt")).outputs.stdout
print(out)
want = f"[{d}/sp ace:/mnt/pydra{d}/sp ace:ro]"
assert want in out, f"mount argument broken at the blank; wanted one argv item {want}"
