"""C13 stale-errored-flag: after a failed (cached errored) run, the resubmission that re-executes
successfully is still reported as failed.  Run: /venv/bin/python <this file>   (exit 1 = defect present)"""
import os
import sys
import tempfile
sys.path.insert(0, os.environ.get("VERIF_REPO", "/repo"))
os.environ["NO_ET"] = "true"
from pydra.compose import python  # noqa: E402

d = tempfile.mkdtemp(prefix="repro-c13-")
__import__("atexit").register(__import__("shutil").rmtree, d, True)
flag = os.path.join(d, "flag")
runs = os.path.join(d, "runs")


@python.define(outputs=["out"])
def Flaky(flag: str, runs: str) -> int:
    with open(runs, "a") as f:
        f.write("x")
    if open(flag).read() == "fail":
        raise ValueError("boom")
    return 42


open(flag, "w").write("fail")
try:
    Flaky(flag=flag, runs=runs)(cache_root=d + "/cache", worker="debug")
    print("unexpected: first run did not fail")
except ValueError as e:
    print("1st submission failed as intended:", e)
open(flag, "w").write("ok")  # same inputs, same cache identity; the body now succeeds
try:
    out = Flaky(flag=flag, runs=runs)(cache_root=d + "/cache", worker="debug")
    print("2nd submission ok: out =", out.out)
except Exception as e:
    print("DEFECT: body ran", len(open(runs).read()), "times, 2nd run succeeded, yet the submission raised:\n ",
          type(e).__name__, str(e).splitlines()[0][-120:], "...", "NOT RETRIEVED" in str(e) and "NOT RETRIEVED")
    out3 = Flaky(flag=flag, runs=runs)(cache_root=d + "/cache", worker="debug")
    print("  (3rd submission is served the stored success: out =", out3.out, ")")
    sys.exit(1)
