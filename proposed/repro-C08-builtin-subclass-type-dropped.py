"""Instances of subclasses of int/str/dict/tuple hash as the base value.

Standalone: /venv/bin/python /verif/proposed/repro-C08-builtin-subclass-type-dropped.py   (VERIF_REPO=<tree> to try another tree).  Exit 1 = defect reproduced.
"""
import os, sys, tempfile
sys.path.insert(0, os.environ.get("VERIF_REPO", "/repo"))
os.environ["NO_ET"] = "true"
tmp = tempfile.mkdtemp(prefix="repro-")
os.environ["PYDRA_HASH_CACHE"] = tmp + "/hashcache"
os.environ["HOME"] = tmp

import enum, collections
from pydra.utils.hash import hash_function as h
class Color(enum.IntEnum):
    RED = 1
P = collections.namedtuple("P", "x y"); Q = collections.namedtuple("P", "a b")
pairs = {"IntEnum vs int": (Color.RED, 1), "OrderedDict vs dict": (collections.OrderedDict(a=1), {"a": 1}),
         "OrderedDict order": (collections.OrderedDict(a=1, b=2), collections.OrderedDict(b=2, a=1)),
         "namedtuple fields": (P(1, 2), Q(1, 2))}
bad = False
for k, (u, v) in pairs.items():
    same = h(u) == h(v)
    print(k, "collide" if same else "differ")
    bad |= same
print("DEFECT REPRODUCED" if bad else "not reproduced")
import shutil; shutil.rmtree(tmp, ignore_errors=True)
sys.exit(1 if bad else 0)
