"""C32 requires-roundtrip: structure(unstructure(T)) raises for a definition with `requires=`.
Run: /venv/bin/python /verif/proposed/repro-C32-requires-roundtrip.py   (exit 1 = defect present)"""
import os
import sys
sys.path.insert(0, os.environ.get("VERIF_REPO", "/repo"))
os.environ["NO_ET"] = "true"
from pydra.compose import python  # noqa: E402
from pydra.utils.general import get_fields, structure, unstructure  # noqa: E402


def body(a, b):
    return 1


T = python.define(body, inputs={"a": python.arg(type=str | None, default=None, requires=[["b"]]),
                                "b": python.arg(type=bool, default=False)}, outputs={"out": int})
dct = unstructure(T)
print("dict form of a.requires:", dct["inputs"]["a"]["requires"])
try:
    T2 = structure(dct)
except Exception as e:
    print("DEFECT: structure(unstructure(T)) raised:", type(e).__name__, str(e)[:200])
    sys.exit(1)
assert get_fields(T) == get_fields(T2), "fields differ"
print("ok: round trip faithful")
