"""Content changed, mtime set back: the persistent hash cache serves the stale hash and a task returns the old content.

Standalone: /venv/bin/python /verif/proposed/repro-C09-mtime-key-restored.py   (VERIF_REPO=<tree> to try another tree).  Exit 1 = defect reproduced.
"""
import os, sys, tempfile
sys.path.insert(0, os.environ.get("VERIF_REPO", "/repo"))
os.environ["NO_ET"] = "true"
tmp = tempfile.mkdtemp(prefix="repro-")
os.environ["PYDRA_HASH_CACHE"] = tmp + "/hashcache"
os.environ["HOME"] = tmp

from pathlib import Path
from fileformats.generic import File
from pydra.compose import python
from pydra.utils.hash import hash_function as h
p = Path(tmp) / "f.txt"
p.write_text("AAAA")
st = p.stat()
h1 = h(File(p))
@python.define
def Read(f: File) -> str:
    return Path(f).read_text()
root = tmp + "/cache"
o1 = Read(f=p)(cache_root=root).out
p.write_text("BBBB")
os.utime(p, ns=(st.st_atime_ns, st.st_mtime_ns))      # e.g. rsync -t / cp -p / tar x
h2 = h(File(p))
fresh = h(File(p), persistent_cache=tmp + "/fresh")
o2 = Read(f=p)(cache_root=root).out
print("hash before", h1, "after", h2, "fresh-cache hash of current content", fresh, "| task returned", o2)
bad = h2 != fresh or o2 != "BBBB"
print("DEFECT REPRODUCED" if bad else "not reproduced")
import shutil; shutil.rmtree(tmp, ignore_errors=True)
sys.exit(1 if bad else 0)
