"""C21: list[int] -> bytes is accepted when the workflow is built (bytes is a Sequence, only str is
excluded) but at run time bytes([-1, 300]) fails (and [1, 2] is silently joined into b"\\x01\\x02").
Run: PYTHONPATH=/repo /venv/bin/python repro-C21-sequence-to-bytes-accepted.py  (exit 1 = defect)"""
import sys
import tempfile
import typing as ty
from pydra.compose import python, workflow
from pydra.utils.typing import TypeParser


@python.define(outputs={"out": list[int]})
def Up(x: ty.Any):
    return x


@python.define(outputs={"out": ty.Any})
def Down(x: bytes):
    return x


@workflow.define(outputs=["out"])
def Wf(v: ty.Any):
    a = workflow.add(Up(x=v), name="a")
    b = workflow.add(Down(x=a.out), name="b")
    return b.out


try:
    TypeParser(bytes).check_type(list[int])   # static check without super-to-sub casting: passes
except TypeError:
    print("list[int] -> bytes is refused statically (fine)")
    sys.exit(0)
with tempfile.TemporaryDirectory() as tmp:
    try:
        print(Wf(v=[-1, 300])(cache_root=tmp, worker="debug"))
    except Exception as e:
        print("accepted at build, failed at run:", type(e).__name__, str(e)[:200])
        sys.exit(1)
