"""C20: coerce_union returns the first alternative that can *coerce* the value, even when the value
already is an instance of a later alternative, so coercing an accepted value again changes it.
Run: PYTHONPATH=/repo /venv/bin/python repro-C20-union-coerces-before-exact-match.py  (exit 1 = defect)"""
import sys
import typing as ty
from pathlib import Path
from pydra.compose import python
from pydra.utils.typing import MultiInputObj


def ident(x):
    return x


Task = python.define(ident, inputs={"x": ty.Union[list[str], MultiInputObj[Path]]}, outputs={"out": ty.Any})
first = Task(x="a").x          # list[str] refuses a str, MultiInputObj[Path] wraps it: [Path('a')]
second = Task(x=first).x       # [Path('a')] is a valid MultiInputObj[Path], but list[str] coerces it first
print(f"given 'a' stored {first!r}; that value assigned again stored {second!r}")
sys.exit(0 if first == second and type(first[0]) is type(second[0]) else 1)
