"""Hash of a set of frozensets / dict keyed by frozensets depends on the insertion (iteration) order.

Standalone: /venv/bin/python /verif/proposed/repro-C08-set-of-sets-order.py   (VERIF_REPO=<tree> to try another tree).  Exit 1 = defect reproduced.
"""
import os, sys, tempfile
sys.path.insert(0, os.environ.get("VERIF_REPO", "/repo"))
os.environ["NO_ET"] = "true"
tmp = tempfile.mkdtemp(prefix="repro-")
os.environ["PYDRA_HASH_CACHE"] = tmp + "/hashcache"
os.environ["HOME"] = tmp

from pydra.utils.hash import hash_function as h
els = [frozenset([16]), frozenset([-1]), frozenset([1, 2]), frozenset([8, 0])]
hs = {h(set(els)), h(set(reversed(els))), h(set(els[2:] + els[:2]))}
hd = {h({k: 1 for k in els}), h({k: 1 for k in reversed(els)})}
print(hs, hd)
bad = len(hs) > 1 or len(hd) > 1
print("DEFECT REPRODUCED" if bad else "not reproduced")
import shutil; shutil.rmtree(tmp, ignore_errors=True)
sys.exit(1 if bad else 0)
