"""C36 / shared-audit-aid (+ resource-monitor-unpicklable with --all): a 2-node workflow audited
with PROV through a FileMessenger under the debug worker.  All jobs share one Audit object: the
workflow's activity has a start but no end record, the last node's activity has two end records.
With `--all` (AuditFlag.ALL) the same sharing makes the node jobs unpicklable (they carry the
workflow's running ResourceMonitor): the workflow fails under debug (and spins forever under cf)."""
import json, os, sys, tempfile, atexit, shutil
sys.path.insert(0, os.environ.get("VERIF_REPO", "/repo")); os.environ["NO_ET"] = "true"
from pathlib import Path
from pydra.compose import python, workflow
from pydra.engine.submitter import Submitter
from pydra.utils.messenger import AuditFlag, FileMessenger


@python.define
def Inc(x: int) -> int:
    return x + 1


@workflow.define
def W(x: int) -> int:
    a = workflow.add(Inc(x=x), name="a")
    b = workflow.add(Inc(x=a.out), name="b")
    return b.out


tmp = Path(tempfile.mkdtemp(dir="/dev/shm")); atexit.register(shutil.rmtree, str(tmp), True)
flags = AuditFlag.ALL if "--all" in sys.argv else AuditFlag.PROV
with Submitter(worker="debug", cache_root=tmp / "cache", audit_flags=flags, messengers=FileMessenger(),
               messenger_args={"message_dir": str(tmp / "msg")}) as sub:
    res = sub(W(x=1), raise_errors=False)
print("workflow errored:", res.errored, "outputs:", res.outputs)
acts = {}
for f in (tmp / "msg").glob("*.jsonld"):
    m = json.loads(f.read_text())
    a = acts.setdefault(m.get("@id"), [0, 0])
    a[0] += "startedAtTime" in m and m.get("@type") == "job"
    a[1] += "endedAtTime" in m and "errored" in m
jobs = {i: a for i, a in acts.items() if a[0]}
for i, (s, e) in jobs.items():
    print(i, "start records:", s, "end records:", e)
ok = (not res.errored) and len(jobs) == 3 and all(a == [1, 1] for a in jobs.values())
sys.exit(0 if ok else 1)
