"""C20: bytes given to a Sequence[bool] field: the items (ints) are cast to bool and re-assembled with
bytes([...]): b'ab' is stored as b'\\x01\\x01', which is not a Sequence[bool] and lost the data.
Run: PYTHONPATH=/repo /venv/bin/python repro-C20-bytes-as-sequence-rebuilt.py  (exit 1 = defect)"""
import sys
import typing as ty
from pydra.compose import python


def ident(x):
    return x


Task = python.define(ident, inputs={"x": ty.Sequence[bool]}, outputs={"out": ty.Any})
try:
    stored = Task(x=b"ab").x
except TypeError:
    print("rejected (fine)")
    sys.exit(0)
print(f"Sequence[bool] given b'ab' stored {stored!r}; items {list(stored)!r}")
sys.exit(0 if all(isinstance(i, bool) for i in stored) else 1)
