"""C27 list-file-crash: a list[File] input makes the Docker/Singularity environment raise
AttributeError: 'list' object has no attribute 'parent' (the runtime is never invoked)."""
import os, stat, sys, tempfile
sys.path.insert(0, os.environ.get("VERIF_REPO", "/repo"))
os.environ["NO_ET"] = "true"
from pathlib import Path
from fileformats.generic import File
from pydra.compose import shell
from pydra.engine.submitter import Submitter
from pydra.environments import singularity

d = Path(tempfile.mkdtemp())
(d / "bin").mkdir()
fake = d / "bin" / "singularity"
fake.write_text("#!/bin/sh\nfor a in \"$@\"; do printf '[%s]\\n' \"$a\"; done\n")
fake.chmod(fake.stat().st_mode | stat.S_IEXEC)
os.environ["PATH"] = f"{d / 'bin'}:{os.environ['PATH']}"
for n in "ab":
    (d / f"{n}.txt").write_text(n)
T = shell.define("cat", inputs=[shell.arg(name="fs", type=list[File], argstr="", position=1)])
with Submitter(worker="debug", environment=singularity.Environment(image="busybox"), cache_root=d / "cache") as s:
    out = s(T(fs=[d / "a.txt", d / "b.txt"])).outputs.stdout   # AttributeError on the unfixed tree
print(out)
assert f"[/mnt/pydra{d}/a.txt]" in out and f"[/mnt/pydra{d}/b.txt]" in out
