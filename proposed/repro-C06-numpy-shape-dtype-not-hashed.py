"""A python task on zeros((3,2)) is answered from the cache entry of zeros((2,3)).

Standalone: /venv/bin/python /verif/proposed/repro-C06-numpy-shape-dtype-not-hashed.py   (VERIF_REPO=<tree> to try another tree).  Exit 1 = defect reproduced.
"""
import os, sys, tempfile
sys.path.insert(0, os.environ.get("VERIF_REPO", "/repo"))
os.environ["NO_ET"] = "true"
tmp = tempfile.mkdtemp(prefix="repro-")
os.environ["PYDRA_HASH_CACHE"] = tmp + "/hashcache"
os.environ["HOME"] = tmp

import numpy as np, typing as ty
from pydra.compose import python
@python.define
def Shape(x: ty.Any) -> str:
    return f"{x.dtype}{x.shape}"
root = tmp + "/cache"
print(Shape(x=np.zeros((2, 3)))(cache_root=root).out)
o = Shape(x=np.zeros((3, 2)))(cache_root=root).out
o2 = Shape(x=np.zeros(6, dtype="int64"))(cache_root=root).out
print("zeros((3,2)) ->", o, "| zeros(6,int64) ->", o2)
bad = o != "float64(3, 2)" or o2 != "int64(6,)"
print("DEFECT REPRODUCED" if bad else "not reproduced")
import shutil; shutil.rmtree(tmp, ignore_errors=True)
sys.exit(1 if bad else 0)
