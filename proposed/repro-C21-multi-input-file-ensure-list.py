"""C21: tuple[File, ...] -> MultiInputObj[File] is accepted statically, but the field's extra
ensure_list pre-converter wraps the runtime tuple as [tuple] and TypeParser refuses it
(MultiInputObj[Path] accepts the same value).
Run: PYTHONPATH=/repo /venv/bin/python repro-C21-multi-input-file-ensure-list.py  (exit 1 = defect)"""
import sys
import tempfile
import typing as ty
from pathlib import Path
from fileformats.generic import File
from pydra.compose import python
from pydra.utils.typing import TypeParser, MultiInputObj

tmp = tempfile.TemporaryDirectory()
f, g = Path(tmp.name) / "f.txt", Path(tmp.name) / "g.txt"
f.write_text("x")
g.write_text("y")


def ident(x):
    return x


TypeParser(MultiInputObj[File]).check_type(tuple[File, ...])   # static check passes
value = TypeParser(tuple[File, ...])((File(f), File(g)))
Other = python.define(ident, inputs={"x": MultiInputObj[Path]}, outputs={"out": ty.Any})
print("MultiInputObj[Path] stores", Other(x=value).x)
Down = python.define(ident, inputs={"x": MultiInputObj[File]}, outputs={"out": ty.Any})
try:
    print("MultiInputObj[File] stores", Down(x=value).x)
except TypeError as e:
    print("statically accepted, runtime value refused:", str(e)[:160])
    sys.exit(1)
