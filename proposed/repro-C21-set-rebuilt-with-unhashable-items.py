"""C21: Iterable[tuple[int, ...]] -> Iterable[list[int]] is accepted statically; a runtime value that
is a *set* of tuples is re-assembled as set([[...]]) after the items were coerced to lists.
Run: PYTHONPATH=/repo /venv/bin/python repro-C21-set-rebuilt-with-unhashable-items.py  (exit 1 = defect)"""
import sys
import typing as ty
from pydra.compose import python
from pydra.utils.typing import TypeParser

S = ty.Iterable[tuple[int, ...]]
T = ty.Iterable[list[int]]


def ident(x):
    return x


TypeParser(T).check_type(S)
Down = python.define(ident, inputs={"x": T}, outputs={"out": ty.Any})
try:
    print(Down(x=TypeParser(S)({(1, 2)})).x)
except TypeError as e:
    print("statically accepted, runtime value refused:", str(e)[:200])
    sys.exit(1)
