"""C13 missing-output-accepted: a python task whose function returns a dict without a mandatory declared
output succeeds and is cached.  Run: /venv/bin/python <this file>   (exit 1 = defect present)"""
import os
import sys
import tempfile
sys.path.insert(0, os.environ.get("VERIF_REPO", "/repo"))
os.environ["NO_ET"] = "true"
from pydra.compose import python  # noqa: E402


@python.define(outputs={"p": int, "q": int})
def Partial(x: int):
    return {"p": x}


d = tempfile.mkdtemp(prefix="repro-c13-")
__import__("atexit").register(__import__("shutil").rmtree, d, True)
try:
    out = Partial(x=1)(cache_root=d, worker="debug")
except Exception as e:
    print("ok: reported as failed:", type(e).__name__, str(e)[:120])
    sys.exit(0)
print("DEFECT: task succeeded with p =", out.p, "and q =", repr(out.q))
sys.exit(1)
