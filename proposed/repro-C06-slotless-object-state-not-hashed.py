"""Inputs without __dict__/__slots__ (bytearray, deque, functools.partial) hash to a constant per class.

Standalone: /venv/bin/python /verif/proposed/repro-C06-slotless-object-state-not-hashed.py   (VERIF_REPO=<tree> to try another tree).  Exit 1 = defect reproduced.
"""
import os, sys, tempfile
sys.path.insert(0, os.environ.get("VERIF_REPO", "/repo"))
os.environ["NO_ET"] = "true"
tmp = tempfile.mkdtemp(prefix="repro-")
os.environ["PYDRA_HASH_CACHE"] = tmp + "/hashcache"
os.environ["HOME"] = tmp

import typing as ty, collections
from pydra.compose import python
@python.define
def Show(x: ty.Any) -> str:
    return repr(x)
root = tmp + "/cache"
a = Show(x=bytearray(b"first"))(cache_root=root).out
b = Show(x=bytearray(b"second"))(cache_root=root).out
c = Show(x=collections.deque([1]))(cache_root=root).out
d = Show(x=collections.deque([2, 3]))(cache_root=root).out
print(a, "|", b, "|", c, "|", d)
bad = a == b or c == d
print("DEFECT REPRODUCED" if bad else "not reproduced")
import shutil; shutil.rmtree(tmp, ignore_errors=True)
sys.exit(1 if bad else 0)
