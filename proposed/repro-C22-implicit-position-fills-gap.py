"""C22: fields without a position must come after every field with an explicit non-negative
position (shell.arg doc: "inserted between all fields with nonnegative positions and fields with
negative positions").  pydra hands them the free slots *below* explicit positions.
Run: PYTHONPATH=/repo /venv/bin/python repro-C22-implicit-position-fills-gap.py   (exit 1 = defect present)"""
import sys
from pydra.compose import shell

T = shell.define("prog", inputs=[
    shell.arg(name="a", type=str, argstr="-a", position=3),
    shell.arg(name="b", type=str, argstr="-b"),              # no position
    shell.arg(name="e", type=str, argstr="-e", position=2),
], name="T")
got = T(a="A", b="B", e="E").cmdline
want = "prog -e E -a A -b B"
print("got :", got)
print("want:", want)
sys.exit(0 if got == want else 1)
