"""C28 reproducers (one file, copied under each mechanism's name; the mechanism is taken from the file name
repro-C28-<mech>.py).  Tiny shell fakes of sbatch/squeue/sacct stand in for SLURM.  Exit code 0 = behaves as
the property says, 1 = defect reproduced.   Run: /venv/bin/python repro-C28-<mech>.py"""
import os, signal, stat, sys, tempfile
sys.path.insert(0, os.environ.get("VERIF_REPO", "/repo"))
os.environ["NO_ET"] = "true"
from pathlib import Path

mech = Path(__file__).stem[len("repro-C28-"):]
d = Path(tempfile.mkdtemp())
os.environ["HOME"] = str(d)
os.environ["PYTHONPATH"] = os.pathsep.join([sys.path[0], str(Path(__file__).parent)])
(d / "bin").mkdir()


def fake(name, body):
    p = d / "bin" / name
    p.write_text("#!/bin/sh\n" + body + "\n")
    p.chmod(p.stat().st_mode | stat.S_IEXEC)


run_script = not mech.startswith("wf-")   # wf-*: the job ends without having written a result
fake("sbatch", f'for a in "$@"; do s="$a"; done; n=$(cat {d}/n 2>/dev/null || echo 0); n=$((n+1)); echo $n > {d}/n; '
     f'echo "$s" > {d}/script.$n; echo "Submitted batch job $n"')
# squeue: the job runs (optionally) when first polled and has then left the queue
fake("squeue", (f'if [ -e {d}/script.$3 ]; then /bin/sh $(cat {d}/script.$3) >/dev/null 2>&1; rm {d}/script.$3; fi\n'
                if run_script else "") + "exit 0")
state = {"sched-failure-masked-by-result": "FAILED 1:0", "wf-worker-error-livelock": "NODE_FAIL 1:0"}.get(mech, "COMPLETED 0:0")
if mech == "acct-lag-fatal":                                # accounting lags one poll behind
    fake("sacct", f'if [ -e {d}/asked ]; then echo "$4 COMPLETED 0:0"; else touch {d}/asked; fi')
else:
    fake("sacct", f'echo "$4 {state}"')
fake("scontrol", "exit 0")
os.environ["PATH"] = f"{d / 'bin'}:{os.environ['PATH']}"

from pydra.engine.submitter import Submitter
import repro_c28_tasks as T

signal.signal(signal.SIGALRM, lambda *a: (print("DEFECT: submission still spinning after 60 s (live-lock)"), os._exit(1)))
signal.alarm(60)
kw = {"worker": "slurm", "poll_delay": 0}
if mech == "slurm-user-error-option":
    kw["sbatch_args"] = f"-e {d}/user-%j.err"
if mech == "sge-typeerror":
    kw = {"worker": "sge", "poll_delay": 0, "collect_jobs_delay": 0}
task = T.Chain(x=1) if mech.startswith("wf-") or mech == "acct-lag-fatal" else T.Inc(x=1)
try:
    with Submitter(cache_root=d / "cache", **kw) as sub:
        r = sub(task)
    print("returned", "errored" if r.errored else r.outputs.out)
    ok_expected = mech in ("slurm-user-error-option", "sge-typeerror", "acct-lag-fatal")
    good = (not r.errored) == ok_expected
except Exception as e:
    print("raised", type(e).__name__, str(e)[:200])
    good = mech in ("sched-failure-masked-by-result", "wf-worker-error-livelock", "wf-no-result-livelock")
print("OK" if good else "DEFECT reproduced: " + mech)
sys.exit(0 if good else 1)
