"""Objects without __dict__/__slots__ fall to the dir() fallback, which hashes none of their state.

Standalone: /venv/bin/python /verif/proposed/repro-C08-slotless-object-state-not-hashed.py   (VERIF_REPO=<tree> to try another tree).  Exit 1 = defect reproduced.
"""
import os, sys, tempfile
sys.path.insert(0, os.environ.get("VERIF_REPO", "/repo"))
os.environ["NO_ET"] = "true"
tmp = tempfile.mkdtemp(prefix="repro-")
os.environ["PYDRA_HASH_CACHE"] = tmp + "/hashcache"
os.environ["HOME"] = tmp

import functools, collections
from pydra.utils.hash import hash_function as h
def f(a, b):
    return a + b
pairs = {"partial": (functools.partial(f, 1), functools.partial(f, 2)), "bytearray": (bytearray(b"a"), bytearray(b"b")),
         "deque": (collections.deque([1]), collections.deque([2])), "builtin": (len, max), "pep585": (list[int], list[str])}
bad = False
for k, (u, v) in pairs.items():
    same = h(u) == h(v)
    print(k, "collide" if same else "differ")
    bad |= same
print("DEFECT REPRODUCED" if bad else "not reproduced")
import shutil; shutil.rmtree(tmp, ignore_errors=True)
sys.exit(1 if bad else 0)
