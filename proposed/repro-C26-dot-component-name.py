"""C26 / dot-component-name: a path template whose formatted last component is '..' resolves to
<job dir>/.. , i.e. the cache root, and that path is what the command receives.
Run: /venv/bin/python repro-C26-dot-component-name.py   (exit 1 = defect present)"""
import sys
sys.path.insert(0, "/repo")
from pathlib import Path
from fileformats.generic import File
from pydra.compose import shell
from pydra.compose.shell.templating import template_update

T = shell.define("/verif/vp/fakes/touchfile", inputs={"s": shell.arg(type=str, argstr=None)},
                 outputs={"out": shell.outarg(type=File, path_template="{s}", argstr="", position=1)}, name="T")
jobdir = Path("/cache_root/shell-0123")
try:
    resolved = template_update(T(s=".."), cache_dir=jobdir)["out"]
except ValueError as e:
    print("ok: refused:", e)
    sys.exit(0)
print("resolved:", resolved)
inside = resolved.parent == jobdir and resolved.name not in ("", ".", "..")
print("ok" if inside else "DEFECT: not an entry of the job directory")
sys.exit(0 if inside else 1)
