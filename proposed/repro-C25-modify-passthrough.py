"""C25 / modify-passthrough: a task defined with a <modify|x:type> field executes its command and then
always fails while collecting the pass-through output (builder._InputPassThrough does getattr on a dict).
Run: /venv/bin/python repro-C25-modify-passthrough.py   (exit 1 = defect present)"""
import sys, tempfile
sys.path.insert(0, "/repo")
import atexit, shutil


def _tmp():
    d = tempfile.mkdtemp(prefix="repro-c25-")
    atexit.register(shutil.rmtree, d, True)
    return d


from pathlib import Path
from pydra.compose import shell

d = Path(_tmp())
(d / "img.txt").write_text("x")
T = shell.define("/verif/vp/fakes/touchfile <modify|image:file>")
try:
    out = T(image=d / "img.txt")(cache_root=_tmp(), worker="debug")
except Exception as e:
    print("DEFECT: run failed:", type(e).__name__, str(e).splitlines()[0][:200])
    sys.exit(1)
print("ok: output image =", out.image)
