"""C39: the Lmod environment drops the caller's environment, and cuts module values at the other quote.
Uses a fake $MODULESHOME/libexec/lmod.  Exit 0 only if both hold."""
import os, stat, sys, tempfile
sys.path.insert(0, os.environ.get("VERIF_REPO", "/repo"))
os.environ["NO_ET"] = "true"
from pathlib import Path
from pydra.compose import shell
from pydra.engine.submitter import Submitter
from pydra.environments import lmod

d = Path(tempfile.mkdtemp())
(d / "libexec").mkdir()
fake = d / "libexec" / "lmod"
fake.write_text("#!/bin/sh\necho 'os.environ[\"TOOL_HOME\"] = \"/opt/tool\";'\n"
                "echo \"os.environ['MOTTO'] = \\\"it's fine\\\";\"\necho '_mlstatus = True'\n")
fake.chmod(fake.stat().st_mode | stat.S_IEXEC)
os.environ["MODULESHOME"] = str(d)
os.environ["CALLER_VAR"] = "kept?"
T = shell.define("/usr/bin/env")
with Submitter(worker="debug", environment=lmod.Environment(modules=["tool/1"]), cache_root=d / "cache") as s:
    out = s(T()).outputs.stdout
print(out)
seen = dict(l.split("=", 1) for l in out.splitlines() if "=" in l)
assert seen.get("TOOL_HOME") == "/opt/tool"
bad = []
if seen.get("CALLER_VAR") != "kept?" or "HOME" not in seen:
    bad.append("env-not-inherited: caller variables missing")
if seen.get("MOTTO") != "it's fine":
    bad.append(f"quote-truncation: MOTTO={seen.get('MOTTO')!r}")
sys.exit("; ".join(bad) if bad else 0)
