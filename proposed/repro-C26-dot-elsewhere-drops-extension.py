"""C26 / dot-elsewhere-drops-extension: keep_extension=True, template without an extension, yet the input
file's extension is dropped because the *raw template string* contains a '.' somewhere else
(templating._element_formatting tests `"." not in template`).
Run: /venv/bin/python repro-C26-dot-elsewhere-drops-extension.py   (exit 1 = defect present)"""
import sys
sys.path.insert(0, "/repo")
from pathlib import Path
from pydra.compose.shell.templating import _element_formatting

f = ("f", Path("/data/x.txt"))
plain = Path(_element_formatting("{f}_out", {}, f, keep_extension=True)).name
dotdir = Path(_element_formatting("../{f}_out", {}, f, keep_extension=True)).name
fmt = Path(_element_formatting("{f}_{thr:.2f}", {"thr": 0.5}, f, keep_extension=True)).name
print("'{f}_out'        ->", plain)    # x_out.txt
print("'../{f}_out'     ->", dotdir)   # x_out      (extension lost)
print("'{f}_{thr:.2f}'  ->", fmt)      # x_0.50     (extension lost)
bad = dotdir != "x_out.txt" or fmt != "x_0.50.txt"
print("DEFECT" if bad else "ok")
sys.exit(1 if bad else 0)
