"""hash_function ignores array shape and dtype.

Standalone: /venv/bin/python /verif/proposed/repro-C08-numpy-shape-dtype-not-hashed.py   (VERIF_REPO=<tree> to try another tree).  Exit 1 = defect reproduced.
"""
import os, sys, tempfile
sys.path.insert(0, os.environ.get("VERIF_REPO", "/repo"))
os.environ["NO_ET"] = "true"
tmp = tempfile.mkdtemp(prefix="repro-")
os.environ["PYDRA_HASH_CACHE"] = tmp + "/hashcache"
os.environ["HOME"] = tmp

import numpy as np
from pydra.utils.hash import hash_function as h
a, b, c, d = h(np.zeros((2, 3))), h(np.zeros((3, 2))), h(np.zeros(6)), h(np.zeros(6, dtype="int64"))
print(a, b, c, d)
bad = len({a, b, c, d}) < 4
print("DEFECT REPRODUCED" if bad else "not reproduced")
import shutil; shutil.rmtree(tmp, ignore_errors=True)
sys.exit(1 if bad else 0)
