"""A file inside a Directory input is edited: the directory's own mtime (the cache key) is unchanged and the stale hash is served.

Standalone: /venv/bin/python /verif/proposed/repro-C09-directory-member-change.py   (VERIF_REPO=<tree> to try another tree).  Exit 1 = defect reproduced.
"""
import os, sys, tempfile
sys.path.insert(0, os.environ.get("VERIF_REPO", "/repo"))
os.environ["NO_ET"] = "true"
tmp = tempfile.mkdtemp(prefix="repro-")
os.environ["PYDRA_HASH_CACHE"] = tmp + "/hashcache"
os.environ["HOME"] = tmp

from pathlib import Path
from fileformats.generic import Directory
from pydra.utils.hash import hash_function as h
d = Path(tmp) / "d"
d.mkdir()
(d / "a.txt").write_text("one")
h1 = h(Directory(d))
(d / "a.txt").write_text("two - edited")
h2 = h(Directory(d))
fresh = h(Directory(d), persistent_cache=tmp + "/fresh")
print("before", h1, "after edit", h2, "fresh-cache hash", fresh)
bad = h2 != fresh
print("DEFECT REPRODUCED" if bad else "not reproduced")
import shutil; shutil.rmtree(tmp, ignore_errors=True)
sys.exit(1 if bad else 0)
