"""C22: a set field contributes its arguments; 0 and 0.0 are set values, but a plain-argstr field
(and a MultiInputObj element) with such a value is silently dropped (`if value:` in _format_arg).
Run: PYTHONPATH=/repo /venv/bin/python repro-C22-falsy-value-dropped.py   (exit 1 = defect present)"""
import sys
from pydra.compose import shell

T = shell.define("prog", inputs=[
    shell.arg(name="n", type=int, argstr="-n"),
    shell.arg(name="t", type=float, argstr="--thr"),
    shell.arg(name="k", type=int, argstr="--k={k}"),       # templated argstr keeps the 0
], name="T")
got = T(n=0, t=0.0, k=0).cmdline
want = "prog -n 0 --thr 0.0 --k=0"
print("got :", got)
print("want:", want)
sys.exit(0 if got == want else 1)
