"""C19 hash-change-only-logged: under the cf worker an in-place modification of an input is noticed but the
submission returns a normal result.  Run: /venv/bin/python <this file>   (exit 1 = defect present)"""
import os
import sys
import tempfile
sys.path.insert(0, os.environ.get("VERIF_REPO", "/repo"))
os.environ["NO_ET"] = "true"
os.environ["PYTHONPATH"] = sys.path[0]
from pydra.compose import python  # noqa: E402


@python.define(outputs=["out"])
def Append(x: list) -> int:
    x.append(99)  # in-place modification of the input
    return len(x)


if __name__ == "__main__":
    d = tempfile.mkdtemp(prefix="repro-c19-")
    __import__("atexit").register(__import__("shutil").rmtree, d, True)
    for worker in ("debug", "cf"):
        try:
            out = Append(x=[1, 2])(cache_root=os.path.join(d, worker), worker=worker)
            print(f"{worker}: DEFECT returned normally, out={out.out}; error file present:",
                  bool(list(__import__('pathlib').Path(d, worker).glob('*/_error.pklz'))))
            rc = 1
        except RuntimeError as e:
            print(f"{worker}: ok, reported:", str(e).splitlines()[0][:90])
            rc = 0
    sys.exit(rc)
