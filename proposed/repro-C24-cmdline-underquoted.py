"""C24: shlex.split(task.cmdline) must give back the executed argv.  cmdline only wraps arguments
containing a space in '...': empty arguments vanish, quotes/backslashes/tabs are not escaped.
Run: PYTHONPATH=/repo /venv/bin/python repro-C24-cmdline-underquoted.py   (exit 1 = defect present)"""
import shlex, sys
from pydra.compose import shell
from pydra.utils.general import attrs_values

T = shell.define("prog", inputs=[shell.arg(name="v", type=bool, argstr="-v", default=False)], name="T")
bad = 0
for extra in [["a b"], [""], ["it's"], ["a\\b"], ["x\ty"], ["don't stop"], ['say "hi"']]:
    task = T(v=True, append_args=extra)           # append_args given as a list: passed on verbatim
    executed = task._command_args(values=attrs_values(task))
    try:
        back = shlex.split(task.cmdline)
    except ValueError as e:
        back = f"ValueError: {e}"
    ok = back == executed
    bad += not ok
    print(f"executed={executed!r:32} cmdline={task.cmdline!r:24} split-> {back!r} {'ok' if ok else 'MISMATCH'}")
sys.exit(1 if bad else 0)
