"""All lambdas bound by an assignment hash alike.

Standalone: /venv/bin/python /verif/proposed/repro-C08-lambda-body-not-hashed.py   (VERIF_REPO=<tree> to try another tree).  Exit 1 = defect reproduced.
"""
import os, sys, tempfile
sys.path.insert(0, os.environ.get("VERIF_REPO", "/repo"))
os.environ["NO_ET"] = "true"
tmp = tempfile.mkdtemp(prefix="repro-")
os.environ["PYDRA_HASH_CACHE"] = tmp + "/hashcache"
os.environ["HOME"] = tmp

from pydra.utils.hash import hash_function as h
f1 = lambda x: x + 1
f2 = lambda x, y: x * y
a, b = h(f1), h(f2)
print(a, b)
bad = a == b
print("DEFECT REPRODUCED" if bad else "not reproduced")
import shutil; shutil.rmtree(tmp, ignore_errors=True)
sys.exit(1 if bad else 0)
