"""The checksum of a task whose input holds a frozenset of frozensets (or another task with >= 2 xor groups) depends on PYTHONHASHSEED.

Standalone: /venv/bin/python /verif/proposed/repro-C07-set-of-sets-order.py   (VERIF_REPO=<tree> to try another tree).  Exit 1 = defect reproduced.
"""
import os, sys, tempfile
sys.path.insert(0, os.environ.get("VERIF_REPO", "/repo"))
os.environ["NO_ET"] = "true"
tmp = tempfile.mkdtemp(prefix="repro-")
os.environ["PYDRA_HASH_CACHE"] = tmp + "/hashcache"
os.environ["HOME"] = tmp

import subprocess
code = """
import sys, os
sys.path.insert(0, os.environ.get("VERIF_REPO", "/repo"))
import typing as ty
from pydra.compose import python
from pydra.utils.hash import hash_function
@python.define(xor=[("a", "b"), ("c", "d")])
def X(a: int | None = None, b: int | None = None, c: int | None = None, d: int | None = None) -> int:
    return 1
@python.define
def Outer(inner: ty.Any) -> int:
    return 1
fs = frozenset([frozenset(["a", "b"]), frozenset(["c", "d"]), frozenset(["e"])])
print(hash_function(fs), Outer(inner=X(a=1, c=2))._checksum)
"""
outs = set()
for seed in ("0", "1", "2", "3"):
    e = dict(os.environ, PYTHONHASHSEED=seed)
    o = subprocess.run([sys.executable, "-c", code], env=e, capture_output=True, text=True, timeout=120).stdout.strip()
    print("PYTHONHASHSEED=" + seed, o)
    outs.add(o)
bad = len(outs) > 1
print("DEFECT REPRODUCED" if bad else "not reproduced")
import shutil; shutil.rmtree(tmp, ignore_errors=True)
sys.exit(1 if bad else 0)
