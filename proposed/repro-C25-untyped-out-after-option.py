"""C25 / untyped-out-after-option: the first example of the shell.define docstring,
`command <input1> <input2> --output <out|output1>`: an untyped out| field that follows a flag is typed
`str` instead of a file-system object, so the task it defines can never be run.
Run: /venv/bin/python repro-C25-untyped-out-after-option.py   (exit 1 = defect present)"""
import sys, tempfile
sys.path.insert(0, "/repo")
import atexit, shutil


def _tmp():
    d = tempfile.mkdtemp(prefix="repro-c25-")
    atexit.register(shutil.rmtree, d, True)
    return d


from pydra.compose import shell
from pydra.utils import get_fields

# /verif/vp/fakes/touchfile creates every non-flag argument it is given
T = shell.define("/verif/vp/fakes/touchfile --output <out|output1>")
print("type of output1:", get_fields(T).output1.type, " path_template:", get_fields(T).output1.path_template)
try:
    out = T()(cache_root=_tmp(), worker="debug")
except Exception as e:
    print("DEFECT: run failed:", type(e).__name__, str(e).splitlines()[0][:200])
    sys.exit(1)
print("ok:", out.output1)
