"""C20: a str given to a Sequence[...] / Iterable[...] field is iterated and re-assembled with
str(list): the stored value is a different string, is not idempotent and (Sequence[Path]) does not
conform.  Run: PYTHONPATH=/repo /venv/bin/python repro-C20-str-as-sequence-rebuilt.py  (exit 1 = defect)"""
import sys
import typing as ty
from pathlib import Path
from pydra.compose import python


def ident(x):
    return x


bad = 0
for T in (ty.Sequence[str], ty.Iterable[str], ty.Sequence[Path]):
    Task = python.define(ident, inputs={"x": T}, outputs={"out": ty.Any})
    try:
        stored = Task(x="12").x
    except TypeError:
        print(T, "rejects '12' (fine)")
        continue
    again = Task(x=stored).x
    print(f"{T}: given '12' stored {stored!r}; assigned again -> {again!r}")
    bad += stored != "12"
sys.exit(1 if bad else 0)
