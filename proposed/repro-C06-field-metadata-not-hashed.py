"""Two shell tasks that differ only in the argstr of an input share a cache entry: the second returns the first's stdout.

Standalone: /venv/bin/python /verif/proposed/repro-C06-field-metadata-not-hashed.py   (VERIF_REPO=<tree> to try another tree).  Exit 1 = defect reproduced.
"""
import os, sys, tempfile
sys.path.insert(0, os.environ.get("VERIF_REPO", "/repo"))
os.environ["NO_ET"] = "true"
tmp = tempfile.mkdtemp(prefix="repro-")
os.environ["PYDRA_HASH_CACHE"] = tmp + "/hashcache"
os.environ["HOME"] = tmp

from pydra.compose import shell
def mk(argstr):
    return shell.define("echo", inputs={"a": shell.arg(type=str, argstr=argstr, position=1, help="")}, name="T")
root = tmp + "/cache"
o1 = mk("--alpha")(a="x")(cache_root=root)
t2 = mk("--beta")(a="x")
o2 = t2(cache_root=root)
print("cmdline of t2:", t2.cmdline, "| returned stdout:", repr(o2.stdout))
bad = "--beta" not in o2.stdout
print("DEFECT REPRODUCED" if bad else "not reproduced")
import shutil; shutil.rmtree(tmp, ignore_errors=True)
sys.exit(1 if bad else 0)
