"""C33 / job-dir-file-name-clash: a workflow output whose file name equals a file pydra keeps in
the job directory.  Run: /venv/bin/python repro-C33-job-dir-file-name-clash.py
Expected (property): the output is collected under a non-clashing name, source untouched.
Observed: `_result.pklz` -> the source file is overwritten with the workflow's result pickle
(it was hard-linked to <wfdir>/_result.pklz, which save() then opens with "wb");
`_job.pklz` -> FileExistsError, the workflow fails."""
import os, sys, tempfile
sys.path.insert(0, os.environ.get("VERIF_REPO", "/repo")); os.environ["NO_ET"] = "true"
from pathlib import Path
from fileformats.generic import File
from pydra.compose import python, workflow
from pydra.engine.submitter import Submitter


@python.define
def Pass(path: str) -> File:
    return File(path)


@workflow.define
def W(path: str) -> File:
    n = workflow.add(Pass(path=path), name="n")
    return n.out


tmp = Path(tempfile.mkdtemp(dir="/dev/shm"))
import atexit, shutil; atexit.register(shutil.rmtree, str(tmp), True)
bad = 0
for name in ("_result.pklz", "_job.pklz"):
    src = tmp / "data" / name
    src.parent.mkdir(exist_ok=True)
    src.write_text("precious user data\n")
    try:
        with Submitter(worker="debug", cache_root=tmp / ("cache" + name)) as sub:
            res = sub(W(path=str(src)), raise_errors=True)
        print(name, "-> collected as", res.outputs.out)
    except Exception as e:
        print(name, "-> workflow failed:", type(e).__name__, str(e).splitlines()[0][:120]); bad += 1
    if src.read_bytes() != b"precious user data\n":
        print(name, "-> SOURCE OVERWRITTEN, now", len(src.read_bytes()), "bytes of pickle"); bad += 1
sys.exit(1 if bad else 0)
