"""C19 numpy-shape-dtype-not-hashed: in-place change of a numpy input's shape is not noticed.
Run: /venv/bin/python <this file>   (exit 1 = defect present)"""
import os
import sys
import tempfile
sys.path.insert(0, os.environ.get("VERIF_REPO", "/repo"))
os.environ["NO_ET"] = "true"
import numpy as np  # noqa: E402
from pydra.compose import python  # noqa: E402


@python.define(outputs=["out"])
def Reshape(x: np.ndarray) -> int:
    x.shape = (3, 2)  # in-place modification of the input
    return 1


d = tempfile.mkdtemp(prefix="repro-c19-")
__import__("atexit").register(__import__("shutil").rmtree, d, True)
a = np.zeros((2, 3))
try:
    Reshape(x=a)(cache_root=d, worker="debug")
except RuntimeError as e:
    print("ok, reported:", str(e).splitlines()[0][:90])
    sys.exit(0)
print("DEFECT: returned normally although the input's shape is now", a.shape)
sys.exit(1)
