"""Python tasks defined from assigned lambdas with different bodies share a cache entry.

Standalone: /venv/bin/python /verif/proposed/repro-C06-lambda-body-not-hashed.py   (VERIF_REPO=<tree> to try another tree).  Exit 1 = defect reproduced.
"""
import os, sys, tempfile
sys.path.insert(0, os.environ.get("VERIF_REPO", "/repo"))
os.environ["NO_ET"] = "true"
tmp = tempfile.mkdtemp(prefix="repro-")
os.environ["PYDRA_HASH_CACHE"] = tmp + "/hashcache"
os.environ["HOME"] = tmp

from pydra.compose import python
f1 = lambda x: x + 1
f2 = lambda x: x * 50
root = tmp + "/cache"
a = python.define(f1, inputs={"x": int}, outputs={"out": int})(x=10)(cache_root=root).out
b = python.define(f2, inputs={"x": int}, outputs={"out": int})(x=10)(cache_root=root).out
print("x+1 ->", a, "| x*50 ->", b)
bad = b != 500
print("DEFECT REPRODUCED" if bad else "not reproduced")
import shutil; shutil.rmtree(tmp, ignore_errors=True)
sys.exit(1 if bad else 0)
