"""C25 / equals-in-default: a quoted default that contains '=' cannot be written in a template.
Run: PYTHONPATH=/repo /venv/bin/python repro-C25-equals-in-default.py   (exit 1 = defect present)"""
import sys
sys.path.insert(0, "/repo")
from pydra.compose import shell
from pydra.utils import get_fields

try:
    T = shell.define("tool --define <d:str='k=v'> -v<verbose=True>")
except ValueError as e:
    print("DEFECT: shell.define raised", repr(e))   # too many values to unpack (builder.py: name.split("="))
    sys.exit(1)
assert get_fields(T).d.default == "k=v", get_fields(T).d.default
print("ok: default is 'k=v'")
