"""C34 / cross-field-name-clash: two input fields that are both staged (copy_mode="copy") and hold
different files with the same base name.  Job.inputs stages every field with its own clash set, the
second copy meets the first one's file -> FileExistsError: the inputs of the job cannot be resolved
(a shell task with these inputs fails before its command is built).
Job.inputs is read in a pre_run_task hook so the script does not depend on how a task type consumes it."""
import os, sys, tempfile, atexit, shutil
sys.path.insert(0, os.environ.get("VERIF_REPO", "/repo")); os.environ["NO_ET"] = "true"
from pathlib import Path
from fileformats.generic import File
from pydra.compose import python
from pydra.engine.hooks import TaskHooks
from pydra.engine.submitter import Submitter


def nop(a, b):
    return 0


Two = python.define(nop, outputs=["out"], inputs={"a": python.arg(type=File, copy_mode="copy"),
                                                  "b": python.arg(type=File, copy_mode="copy")})
seen = {}


def pre(job):
    try:
        seen.update({k: Path(job.inputs[k]) for k in ("a", "b")})
    except Exception as e:
        seen["error"] = f"{type(e).__name__}: {str(e).splitlines()[0][:160]}"


tmp = Path(tempfile.mkdtemp(dir="/dev/shm")); atexit.register(shutil.rmtree, str(tmp), True)
for s in ("sub1", "sub2"):
    (tmp / s).mkdir(); (tmp / s / "T1.txt").write_text(s + "\n")
with Submitter(worker="debug", cache_root=tmp / "cache") as sub:
    sub(Two(a=tmp / "sub1" / "T1.txt", b=tmp / "sub2" / "T1.txt"), hooks=TaskHooks(pre_run_task=pre))
print(seen)
ok = "error" not in seen and seen["a"] != seen["b"] and seen["a"].read_text() == "sub1\n" and seen["b"].read_text() == "sub2\n"
sys.exit(0 if ok else 1)
