"""C20: coerce_union only catches TypeError, so a File alternative that raises FileNotFoundError aborts
the coercion instead of trying the next alternative; the value stored for ['/missing'] conforms to
list[Path] but is refused when assigned again.
Run: PYTHONPATH=/repo /venv/bin/python repro-C20-union-alternative-raises-oserror.py  (exit 1 = defect)"""
import sys
import typing as ty
from pathlib import Path
from fileformats.generic import File
from pydra.compose import python


def ident(x):
    return x


Task = python.define(ident, inputs={"x": ty.Union[File, list[Path]]}, outputs={"out": ty.Any})
stored = Task(x=["/missing-file"]).x
print("given ['/missing-file'] stored", stored)
try:
    print("assigned again stored", Task(x=stored).x)
except FileNotFoundError as e:
    print("assigning the stored value again raises", type(e).__name__, str(e)[:90].replace("\n", " "))
    sys.exit(1)
