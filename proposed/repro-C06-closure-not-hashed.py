"""Python tasks (and workflow constructors) that are closures over different values share a cache entry.

Standalone: /venv/bin/python /verif/proposed/repro-C06-closure-not-hashed.py   (VERIF_REPO=<tree> to try another tree).  Exit 1 = defect reproduced.
"""
import os, sys, tempfile
sys.path.insert(0, os.environ.get("VERIF_REPO", "/repo"))
os.environ["NO_ET"] = "true"
tmp = tempfile.mkdtemp(prefix="repro-")
os.environ["PYDRA_HASH_CACHE"] = tmp + "/hashcache"
os.environ["HOME"] = tmp

from pydra.compose import python
def mk(k):
    def f(x: int) -> int:
        return x + k
    return python.define(f)
root = tmp + "/cache"
a = mk(1)(x=10)(cache_root=root).out
b = mk(100)(x=10)(cache_root=root).out
print("x+1 ->", a, "| x+100 ->", b)
bad = b != 110
print("DEFECT REPRODUCED" if bad else "not reproduced")
import shutil; shutil.rmtree(tmp, ignore_errors=True)
sys.exit(1 if bad else 0)
