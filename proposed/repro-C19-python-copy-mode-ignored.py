"""C19 python-copy-mode-ignored: a python task whose File input is declared copy_mode=copy still gets the
original path, so the original is modified.  Run: /venv/bin/python <this file>   (exit 1 = defect present)"""
import os
import sys
import tempfile
sys.path.insert(0, os.environ.get("VERIF_REPO", "/repo"))
os.environ["NO_ET"] = "true"
from fileformats.generic import File  # noqa: E402
from pydra.compose import python  # noqa: E402


def scribble(x):
    with open(str(x), "a") as f:
        f.write("+mut")
    return str(x)


Scribble = python.define(scribble, inputs={"x": python.arg(type=File, copy_mode=File.CopyMode.copy)},
                         outputs={"out": str})
d = tempfile.mkdtemp(prefix="repro-c19-")
__import__("atexit").register(__import__("shutil").rmtree, d, True)
orig = os.path.join(d, "orig.txt")
open(orig, "w").write("orig")
try:
    out = Scribble(x=File(orig))(cache_root=os.path.join(d, "cache"), worker="debug")
    print("task returned, path seen by the function:", out.out)
except Exception as e:
    print("task raised:", type(e).__name__, str(e).splitlines()[0][:80])
content = open(orig).read()
print("original content afterwards:", repr(content))
sys.exit(1 if content != "orig" else 0)
