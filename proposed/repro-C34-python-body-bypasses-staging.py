"""C34 / python-body-bypasses-staging: python.arg(copy_mode="copy") is ignored — the function is
called with the task's raw attributes, not with Job.inputs, so it receives (and here edits) the
original file.  Expected: the body works on an independent copy inside the job directory."""
import os, sys, tempfile, atexit, shutil
sys.path.insert(0, os.environ.get("VERIF_REPO", "/repo")); os.environ["NO_ET"] = "true"
from pathlib import Path
from fileformats.generic import File
from pydra.compose import python
from pydra.engine.submitter import Submitter


def edit(in_file):
    with open(in_file, "a") as f:
        f.write("edited by the task\n")
    return str(in_file)


Edit = python.define(edit, inputs={"in_file": python.arg(type=File, copy_mode="copy")}, outputs=["out"])

tmp = Path(tempfile.mkdtemp(dir="/dev/shm")); atexit.register(shutil.rmtree, str(tmp), True)
src = tmp / "data" / "in.txt"; src.parent.mkdir(); src.write_text("original\n")
with Submitter(worker="debug", cache_root=tmp / "cache") as sub:
    res = sub(Edit(in_file=src), raise_errors=False)
print("body received:", res.outputs.out if res.outputs else None)
print("original now :", repr(src.read_text()))
sys.exit(0 if src.read_text() == "original\n" else 1)
