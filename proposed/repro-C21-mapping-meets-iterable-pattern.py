"""C21: a dict value that meets an Iterable[X] pattern makes coerce_mapping unpack the single type arg
as (key, value): ValueError escapes coerce_union instead of trying the Mapping alternative.
tuple[Mapping[str,int]] -> list[Union[Iterable[int], Mapping[str,int]]] is accepted statically and
fails at run time.  Run: PYTHONPATH=/repo /venv/bin/python repro-C21-mapping-meets-iterable-pattern.py"""
import sys
import typing as ty
from pydra.compose import python
from pydra.utils.typing import TypeParser

S = tuple[ty.Mapping[str, int]]
T = list[ty.Union[ty.Iterable[int], ty.Mapping[str, int]]]


def ident(x):
    return x


TypeParser(T).check_type(S)   # static check passes
Down = python.define(ident, inputs={"x": T}, outputs={"out": ty.Any})
try:
    print(Down(x=TypeParser(S)(({"a": 1},))).x)
except Exception as e:
    print("statically accepted, runtime value refused:", type(e).__name__, e)
    sys.exit(1)
