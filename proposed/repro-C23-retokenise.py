"""C23: a string/path value must reach the executed command as supplied.  pydra builds
"<argstr> <value>" and splits that string again with shlex.split (+ strips outer quotes), so values
with spaces, quotes or backslashes are split, altered, or make the task fail.
Run: PYTHONPATH=/repo /venv/bin/python repro-C23-retokenise.py   (exit 1 = defect present)"""
import json, sys, tempfile
from pydra.compose import shell

DUMP = "/verif/vp/fakes/dumpargv"     # prints json.dumps(sys.argv[1:])
T = shell.define(DUMP, inputs=[shell.arg(name="msg", type=str, argstr="-m")], name="T")
bad = 0
for value in ["a b", "a\\b", "'q'", "a'b", "$HOME *"]:
    try:
        out = T(msg=value)(cache_root=tempfile.mkdtemp(), worker="debug")
        got = json.loads(out.stdout)
    except Exception as e:
        got = f"{type(e).__name__}: {e}".splitlines()[0]
    ok = got == ["-m", value]
    bad += not ok
    print(f"{value!r:12} -> {got!r} {'ok' if ok else 'NOT INTACT'}")
sys.exit(1 if bad else 0)
