"""C21: set[int] -> Sequence[int] is accepted when the workflow is built (Set -> Sequence is
coercible) but at run time TypeParser calls collections.abc.Sequence([...]) and the workflow fails.
Run: PYTHONPATH=/repo /venv/bin/python repro-C21-abstract-target-not-instantiable.py  (exit 1 = defect)"""
import sys
import tempfile
import typing as ty
from pydra.compose import python, workflow
from pydra.utils.typing import TypeParser


@python.define(outputs={"out": set[int]})
def Up(x: ty.Any):
    return x


@python.define(outputs={"out": ty.Any})
def Down(x: ty.Sequence[int]):
    return x


@workflow.define(outputs=["out"])
def Wf(v: ty.Any):
    a = workflow.add(Up(x=v), name="a")
    b = workflow.add(Down(x=a.out), name="b")
    return b.out


TypeParser(ty.Sequence[int]).check_type(set[int])   # static check without super-to-sub casting: passes
with tempfile.TemporaryDirectory() as tmp:
    try:
        print(Wf(v={1, 2})(cache_root=tmp, worker="debug"))
    except Exception as e:
        print("accepted at build, failed at run:", type(e).__name__, str(e)[:200])
        sys.exit(1)
