"""An IntEnum / OrderedDict input shares the cache entry of the equal int / dict.

Standalone: /venv/bin/python /verif/proposed/repro-C06-builtin-subclass-type-dropped.py   (VERIF_REPO=<tree> to try another tree).  Exit 1 = defect reproduced.
"""
import os, sys, tempfile
sys.path.insert(0, os.environ.get("VERIF_REPO", "/repo"))
os.environ["NO_ET"] = "true"
tmp = tempfile.mkdtemp(prefix="repro-")
os.environ["PYDRA_HASH_CACHE"] = tmp + "/hashcache"
os.environ["HOME"] = tmp

import enum, typing as ty, collections
from pydra.compose import python
class Color(enum.IntEnum):
    RED = 1
@python.define
def Kind(x: ty.Any) -> str:
    return f"{type(x).__name__}:{list(x.items()) if isinstance(x, dict) else x!r}"
root = tmp + "/cache"
a = Kind(x=1)(cache_root=root).out
b = Kind(x=Color.RED)(cache_root=root).out
c = Kind(x=collections.OrderedDict(b=1, a=2))(cache_root=root).out
d = Kind(x=collections.OrderedDict(a=2, b=1))(cache_root=root).out
print(a, "|", b, "|", c, "|", d)
bad = b == a or c == d
print("DEFECT REPRODUCED" if bad else "not reproduced")
import shutil; shutil.rmtree(tmp, ignore_errors=True)
sys.exit(1 if bad else 0)
