"""C33 / relative-symlink-source: a node returns a File that is a relative symlink (e.g. made by
`ln -s data.txt latest.txt` in its job directory).  copyfile_workflow hard-links it; os.link does
not follow symlinks on Linux, so the workflow directory receives a relative symlink that dangles
and the workflow fails with FileNotFoundError instead of collecting the content."""
import os, sys, tempfile
sys.path.insert(0, os.environ.get("VERIF_REPO", "/repo")); os.environ["NO_ET"] = "true"
from pathlib import Path
from fileformats.generic import File
from pydra.compose import python, workflow
from pydra.engine.submitter import Submitter


@python.define
def Tool() -> File:
    Path("data.txt").write_text("hello\n")
    os.symlink("data.txt", "latest.txt")
    return File(Path.cwd() / "latest.txt")


@workflow.define
def W() -> File:
    n = workflow.add(Tool(), name="n")
    return n.out


tmp = Path(tempfile.mkdtemp(dir="/dev/shm"))
import atexit, shutil; atexit.register(shutil.rmtree, str(tmp), True)
try:
    with Submitter(worker="debug", cache_root=tmp / "cache") as sub:
        res = sub(W(), raise_errors=True)
    ok = Path(res.outputs.out).read_text() == "hello\n"
    print("collected:", res.outputs.out, "content ok:", ok)
    sys.exit(0 if ok else 1)
except Exception as e:
    print("workflow failed:", type(e).__name__, str(e).splitlines()[0][:160])
    sys.exit(1)
