"""C20: str <-> Set coercion is not excluded (NOT_COERCIBLE_DEFAULT only lists str <-> Sequence):
a str given to a set[...] field is split into characters, a set given to a str field is joined into
its repr.  Run: PYTHONPATH=/repo /venv/bin/python repro-C20-set-joined-into-str.py  (exit 1 = defect)"""
import sys
import typing as ty
from pydra.compose import python


def ident(x):
    return x


bad = 0
for T, v in ((set[str], "ab"), (frozenset[str], "ab"), (str, {1, 2}), (ty.Optional[str], frozenset({"a"}))):
    Task = python.define(ident, inputs={"x": T}, outputs={"out": ty.Any})
    try:
        stored = Task(x=v).x
    except TypeError:
        print(T, repr(v), "rejected (fine)")
        continue
    print(f"{T}: given {v!r} stored {stored!r}")
    bad += 1
sys.exit(1 if bad else 0)
