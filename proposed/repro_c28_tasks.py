"""tasks for repro-C28-*.py (module level so that the batch job can unpickle them)"""
from pydra.compose import python, workflow


@python.define
def Inc(x: int) -> int:
    return x + 1


@workflow.define
def Chain(x: int) -> int:
    a = workflow.add(Inc(x=x), name="a")
    b = workflow.add(Inc(x=a.out), name="b")
    return b.out
