#!/bin/sh
# offline setup: contracts libraries beside the repo's interpreter; fakes executable
cd "$(dirname "$0")"
if [ ! -d .deps/icontract ]; then
  /venv/bin/pip install -q --no-index --find-links /opt/veriftools/wheels --target .deps icontract deal jsonschema >/dev/null 2>&1 || echo "setup: pip install of contracts libs failed (checks that need them report inconclusive)"
fi
chmod +x check vp/fakes/* 2>/dev/null
exit 0
