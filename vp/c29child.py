"""Fresh-interpreter side of C29: python -m vp.c29child <pickle> <out.json>
Loads a cloudpickled dict {"kind":..., "obj":...} and reports what the deserialised object is."""
import json
import os
import sys


def _ov(o):
    from pydra.utils.general import attrs_values
    return attrs_values(o)


def main():
    pkl, outp = sys.argv[1:3]
    from vp import env
    env.bind(os.path.dirname(outp))
    import cloudpickle as cp
    rep = {"hashseed": os.environ.get("PYTHONHASHSEED")}
    try:
        with open(pkl, "rb") as f:
            d = cp.load(f)
        kind, obj = d["kind"], d["obj"]
        rep["kind"] = kind
        if kind == "task":
            rep["checksum"] = obj._checksum
        elif kind == "job":
            rep["checksum"] = obj.checksum
            rep["cache_dir"] = str(obj.cache_dir)
            res = obj.run()
            rep["errored"] = bool(res.errored)
            rep["outputs"] = json.loads(env.jdump({k: v for k, v in _ov(res.outputs).items() if not k.startswith("_")}))
        elif kind == "submitter":
            rep["attrs"] = {"cache_root": str(obj.cache_root), "max_concurrent": repr(obj.max_concurrent),
                            "propagate_rerun": obj.propagate_rerun, "worker": type(obj.worker).__name__,
                            "n_procs": getattr(obj.worker, "n_procs", None),
                            "readonly": [str(p) for p in (obj.readonly_caches or [])],
                            "audit_flags": obj.audit.audit_flags.value}
            # a deserialised submitter must still be able to run a task handed to it
            with obj as sub:
                r = sub(d["task"], raise_errors=True)
            rep["outputs"] = json.loads(env.jdump({k: v for k, v in _ov(r.outputs).items() if not k.startswith("_")}))
        elif kind == "result":
            rep["errored"] = bool(obj.errored)
            rep["outputs"] = json.loads(env.jdump({k: v for k, v in _ov(obj.outputs).items() if not k.startswith("_")}))
    except BaseException as e:  # noqa: BLE001
        import traceback
        rep["err"] = f"{type(e).__name__}: {str(e)[:300]}"
        rep["tb"] = traceback.format_exc()[-800:]
    with open(outp, "w") as f:
        json.dump(rep, f)


if __name__ == "__main__":
    main()
