"""Controlled schedules for the asynchronous execution loop.

GatedCF is a *plain* subclass of pydra's ConcurrentFuturesWorker: the real `run` (cloudpickle ->
real ProcessPoolExecutor -> real Job.run in a child) is only wrapped to maintain `inflight`.
MonSubmitter only flags "the event loop is parked in asyncio.wait".  Task bodies created with
gate=True (vp.terms.F) log `start`, then wait for <VP_GATES>/<sha1(term)>.go.  A controller thread
in the submitting process watches the event log; at quiescence (loop parked and every in-flight
job that can have a process is held at its gate) it releases exactly one held body chosen by the
caller's `chooser`, so the completion order is chosen rather than left to the OS, and
over-launching is exposed (all launched bodies sit at their gates simultaneously).
"""
from __future__ import annotations

import os
import threading
import time
from pathlib import Path

from pydra.engine.submitter import Submitter
from pydra.workers.cf import ConcurrentFuturesWorker

from vp import evlog
from vp.terms import gate_name


class GatedCF(ConcurrentFuturesWorker):
    _plugin_name = "gatedcf"

    def __init__(self, *a, **k):
        super().__init__(*a, **k)
        self.inflight = set()
        self.launched = 0

    async def run(self, job, rerun=False):
        self.inflight.add(job.uid)
        self.launched += 1
        try:
            return await super().run(job, rerun)
        finally:
            self.inflight.discard(job.uid)


class MonSubmitter(Submitter):
    parked = False

    async def fetch_finished(self, futures):
        self.parked = True
        try:
            return await super().fetch_finished(futures)
        finally:
            self.parked = False


def held_terms(events, released):
    started, finished = [], set()
    for e in events:
        if e["ev"] == "start":
            started.append(e["term"])
        elif e["ev"] in ("end", "fail"):
            finished.add(e["term"])
    return [t for t in started if t not in finished and t not in released]


class LogTail:
    """incremental reader of the append-only event log (avoids re-parsing the file at every poll)"""

    def __init__(self, path):
        self.path, self.pos, self.events, self.buf = str(path), 0, [], b""

    def read(self):
        import json as _json
        try:
            with open(self.path, "rb") as f:
                f.seek(self.pos)
                data = f.read()
        except FileNotFoundError:
            return self.events
        if data:
            self.pos += len(data)
            self.buf += data
            *lines, self.buf = self.buf.split(b"\n")
            for ln in lines:
                if ln.strip():
                    try:
                        self.events.append(_json.loads(ln))
                    except ValueError:
                        pass
        return self.events


def controller(sub, worker, log, gates, chooser, stop, order, stats, force_after=40.0):
    released = set()
    last_progress = time.time()
    tail = LogTail(log)
    while not stop.is_set():
        ev = list(tail.read())
        held = held_terms(ev, released)
        ninf = len(worker.inflight)
        quiescent = sub.parked and held and ninf > 0 and len(held) >= min(ninf, worker.n_procs)
        forced = False
        if not quiescent and held and time.time() - last_progress > force_after:
            forced = True          # progress guarantee for the harness; counted, never a verdict
        if quiescent or forced:
            if not forced:
                time.sleep(0.01)
                if not sub.parked or len(worker.inflight) != ninf or len(tail.read()) != len(ev):
                    continue
            stats["max_held"] = max(stats.get("max_held", 0), len(held))
            stats.setdefault("held_sizes", []).append(len(held))
            if forced:
                stats["forced_releases"] = stats.get("forced_releases", 0) + 1
            choice = chooser(sorted(held), ev)
            batch = list(choice) if isinstance(choice, (list, tuple)) else [choice]
            if len(batch) > 1:
                # release several bodies at once while the event-loop thread is briefly busy (as it is
                # whenever a callback takes time, e.g. pickling the next job), so that their completions
                # reach the loop in one asyncio.wait wake-up
                stats["batches"] = stats.get("batches", 0) + 1
                try:
                    sub.loop.call_soon_threadsafe(time.sleep, 0.4)
                    time.sleep(0.05)
                except Exception:  # noqa: BLE001
                    pass
            for c in batch:
                released.add(c)
                order.append(c)
                (Path(gates) / gate_name(c)).touch()
            t0 = time.time()
            while not stop.is_set() and time.time() - t0 < 30:
                evs = tail.read()
                if all(any(e.get("term") == c and e["ev"] in ("end", "fail") for e in evs) for c in batch):
                    break
                time.sleep(0.004)
            last_progress = time.time()
            time.sleep(0.02)
        else:
            time.sleep(0.005)


def run_gated(task, wctx, chooser, max_concurrent=None, n_procs=8, raise_errors=True, watchdog=120.0):
    """-> dict(result, exc, order, events, max_running, stats, timed_out)"""
    log = evlog.start(wctx.fresh_dir("log") / "ev.jsonl")
    gates = wctx.fresh_dir("gates")
    os.environ["VP_GATES"] = str(gates)
    worker = GatedCF(n_procs=n_procs)
    stop = threading.Event()
    order, stats = [], {}
    res = exc = None
    kw = {} if max_concurrent is None else {"max_concurrent": max_concurrent}
    timed_out = [False]

    def dog():
        if not stop.wait(watchdog):
            timed_out[0] = True
            (Path(gates) / "ALL.go").touch()   # let everything drain; the case becomes inconclusive
    wd = threading.Thread(target=dog, daemon=True)
    wd.start()
    try:
        with MonSubmitter(worker=worker, cache_root=wctx.fresh_dir("cache"), **kw) as sub:
            th = threading.Thread(target=controller, args=(sub, worker, log, gates, chooser, stop, order, stats),
                                  daemon=True)
            th.start()
            try:
                res = sub(task, raise_errors=raise_errors)
            except Exception as e:  # noqa: BLE001 - pydra's own failure is an observation
                exc = e
            stop.set()
            th.join()
            (Path(gates) / "ALL.go").touch()   # open every gate before the pool shuts down
    finally:
        stop.set()
        (Path(gates) / "ALL.go").touch()
        os.environ.pop("VP_GATES", None)
    ev = evlog.read(log)
    cur = mx = 0
    for e in ev:
        if e["ev"] == "start":
            cur += 1
            mx = max(mx, cur)
        elif e["ev"] in ("end", "fail"):
            cur -= 1
    return {"result": res, "exc": exc, "order": order, "events": ev, "max_running": mx, "stats": stats,
            "timed_out": timed_out[0], "launched": worker.launched}
