"""One C18 case in its own process:  python -m vp.c18child <case.json> <out.json>
A budget thread turns "the submission burnt more CPU time than any legitimate run of these tiny
workflows could" into a verdict with the spinning stack as witness (a logical budget measured in CPU
seconds of this process, so machine load cannot trigger it); wall-clock is left to the parent's
watchdog, whose firing is only inconclusive."""
import json
import os
import sys
import threading
import time
import traceback


def main():
    case_path, outp = sys.argv[1:3]
    from vp import env
    scratch = os.path.dirname(outp)
    env.bind(scratch)
    case = json.load(open(case_path))
    from vp.worker import WCtx
    from vp.props import c18
    budget = float(os.environ.get("VP_C18_CPU_BUDGET", "25"))
    main_id = threading.get_ident()
    t0 = time.process_time()

    def watch():
        while True:
            time.sleep(0.5)
            used = time.process_time() - t0
            if used > budget:
                fr = sys._current_frames().get(main_id)
                stack = traceback.format_stack(fr)[-8:] if fr else []
                pyd = [ln.strip().splitlines()[0] for ln in stack if "/pydra/" in ln]
                r = {"verdict": "violated", "case": case, "sig": env.sig_of(case), "nontrivial": True,
                     "witness": {"why": "no termination within the CPU budget (busy loop)", "cpu_seconds": round(used, 1),
                                 "spinning_in": pyd[-3:], "back_edges": case.get("spec", {}).get("back")},
                     "mech": None, "obs": {"outcome": "cpu-budget-exhausted"}, "counters": {"cpu_budget_exhausted": 1},
                     "distinct": {"families": [case.get("family")]}}
                with open(outp, "w") as f:
                    json.dump(r, f)
                os._exit(3)
    threading.Thread(target=watch, daemon=True).start()
    w = WCtx(scratch, int(os.environ.get("VERIF_SEED_", "0")), "C18", "quick")
    os.chdir(scratch)
    r = c18.case_inproc(case, w)
    with open(outp, "w") as f:
        f.write(env.jdump(r))


if __name__ == "__main__":
    main()
