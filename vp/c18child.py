"""One C18 case in its own process:  python -m vp.c18child <case.json> <out.json>
A budget thread turns "the submission burnt more CPU time than any legitimate run of these tiny
workflows could" into a verdict with the spinning stack as witness: the budget is *user* CPU time of this
process measured after the imports (system time and imports are what a loaded machine inflates), and a
violation additionally needs the main thread to sit inside the same pydra function on 10 consecutive stack
samples - otherwise the result is inconclusive.  Wall-clock is left to the parent's watchdog, whose firing
is only inconclusive."""
import json
import os
import sys
import threading
import time
import traceback


def main():
    case_path, outp = sys.argv[1:3]
    from vp import env
    scratch = os.path.dirname(outp)
    env.bind(scratch)
    case = json.load(open(case_path))
    from vp.worker import WCtx
    from vp.props import c18
    import pydra.engine.submitter  # noqa: F401  (imports are not part of the budget)
    import pydra.compose.workflow  # noqa: F401
    budget = float(os.environ.get("VP_C18_CPU_BUDGET", "40"))
    main_id = threading.get_ident()
    t0 = os.times().user          # user time only: system time is inflated by a loaded machine, a python busy loop is not

    def sample():
        fr = sys._current_frames().get(main_id)
        stack = traceback.extract_stack(fr)[-12:] if fr else []
        return [f"{os.path.basename(fs.filename)}:{fs.name}" for fs in stack if "/pydra/" in fs.filename]

    def watch():
        while True:
            time.sleep(0.5)
            used = os.times().user - t0
            if used > budget:
                # a busy loop keeps the main thread inside the same pydra function: sample it repeatedly
                samples = []
                for _ in range(10):
                    samples.append(sample())
                    time.sleep(0.2)
                inner = [smp[-1] if smp else None for smp in samples]
                common = set(samples[0]).intersection(*map(set, samples[1:])) if samples and all(samples) else set()
                spinning = bool(common) and None not in inner
                r = {"verdict": "violated" if spinning else "inconclusive", "case": case, "sig": env.sig_of(case), "nontrivial": True,
                     "why": "CPU budget exhausted but the main thread was not found inside one pydra function on 10 samples",
                     "witness": {"why": "no termination within the CPU budget (busy loop)", "user_cpu_seconds": round(used, 1),
                                 "spinning_in": sorted(common), "innermost_samples": inner,
                                 "back_edges": case.get("spec", {}).get("back")},
                     "mech": None, "obs": {"outcome": "cpu-budget-exhausted"}, "counters": {"cpu_budget_exhausted": 1},
                     "distinct": {"families": [case.get("family")]}}
                with open(outp, "w") as f:
                    json.dump(r, f)
                os._exit(3)
    threading.Thread(target=watch, daemon=True).start()
    w = WCtx(scratch, int(os.environ.get("VERIF_SEED_", "0")), "C18", "quick")
    os.chdir(scratch)
    r = c18.case_inproc(case, w)
    with open(outp, "w") as f:
        f.write(env.jdump(r))


if __name__ == "__main__":
    main()
