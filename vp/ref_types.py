"""Reference predicates for C20 / C21, written from the Python typing rules (PEP 484 / typing docs)
and the property statements, not from pydra's TypeParser.

conforms(v, spec)        does value v belong to the declared type (element types included)?
string_integrity(i, o)   the statement's "strings are never silently split into sequences nor
                         sequences joined into strings": every str leaf of the stored value is a str
                         leaf (or the fspath of a path leaf) of the input, and every str leaf of the
                         input survives (as str, or as a path object with that fspath).
deep_same(a, b)          same types and same data all the way down (idempotence).
same_data(i, o)          same data modulo container kind / numeric widening / path<->str / MIO wrap
                         (anything else is "lossy": the statement is silent -> MAY counter only).
arity_positions(v, spec) fixed-length-tuple positions whose runtime value has another length (C21).
"""
from __future__ import annotations

import collections.abc as cabc
import os
from pathlib import PurePath


def _fileset_types():
    from fileformats.generic import File, Directory
    return File, Directory


def is_str(v):
    return isinstance(v, str)


def is_container(v):
    return isinstance(v, (list, tuple, set, frozenset, dict, range, cabc.Mapping)) and not is_str(v)


def conforms(v, s) -> bool:
    if isinstance(s, str):
        if s == "Any":
            return True
        if s == "None":
            return v is None
        if s == "bool":
            return isinstance(v, bool)
        if s == "int":
            return isinstance(v, int)
        if s == "float":  # PEP 484 numeric tower: int is acceptable where float is declared
            return isinstance(v, (float, int)) and not isinstance(v, bool) or isinstance(v, float)
        if s == "str":
            return isinstance(v, str)
        if s == "bytes":
            return isinstance(v, bytes)
        if s == "Path":
            return isinstance(v, PurePath)
        File, Directory = _fileset_types()
        if s == "File":
            return isinstance(v, File)
        if s == "Directory":
            return isinstance(v, Directory)
        raise ValueError(s)
    c, a = s[0], s[1:]
    if c == "opt":
        return v is None or conforms(v, a[0])
    if c == "union":
        return any(conforms(v, x) for x in a)
    if c in ("list", "MIO"):  # MultiInputObj[T] is a list subclass; a plain list of T is what tasks see
        return isinstance(v, list) and all(conforms(x, a[0]) for x in v)
    if c == "tuple":
        return isinstance(v, tuple) and len(v) == len(a) and all(conforms(x, t) for x, t in zip(v, a))
    if c == "vtuple":
        return isinstance(v, tuple) and all(conforms(x, a[0]) for x in v)
    if c == "set":
        return isinstance(v, set) and all(conforms(x, a[0]) for x in v)
    if c == "frozenset":
        return isinstance(v, frozenset) and all(conforms(x, a[0]) for x in v)
    if c == "dict":
        return isinstance(v, dict) and all(conforms(k, a[0]) and conforms(x, a[1]) for k, x in v.items())
    if c == "Mapping":
        return isinstance(v, cabc.Mapping) and all(conforms(k, a[0]) and conforms(x, a[1])
                                                   for k, x in v.items())
    if c == "Sequence":
        return isinstance(v, cabc.Sequence) and all(conforms(x, a[0]) for x in v)
    if c == "Iterable":
        return isinstance(v, (cabc.Sequence, cabc.Set, cabc.Mapping)) and all(conforms(x, a[0]) for x in v)
    raise ValueError(s)


def leaves(v, out=None):
    """[(kind, value)] for kind in str / path / bytes / other, recursing through containers."""
    if out is None:
        out = []
    if is_str(v):
        out.append(("str", v))
    elif isinstance(v, (bytes, bytearray)):
        out.append(("bytes", bytes(v)))
    elif isinstance(v, os.PathLike):
        out.append(("path", os.fspath(v)))
    elif isinstance(v, cabc.Mapping):
        for k, x in v.items():
            leaves(k, out)
            leaves(x, out)
    elif isinstance(v, (list, tuple, set, frozenset, range)):
        for x in v:
            leaves(x, out)
    else:
        out.append(("other", v))
    return out


def containers(v, out=None):
    if out is None:
        out = []
    if is_container(v):
        out.append(v)
        for x in (list(v.items()) if isinstance(v, cabc.Mapping) else v):
            if isinstance(x, tuple) and isinstance(v, cabc.Mapping):
                containers(x[0], out)
                containers(x[1], out)
            else:
                containers(x, out)
    return out


def string_integrity(inp, out):
    """-> list of flags: ("new-str", s) a string that was not in the input (joined / rebuilt),
    ("split-str", s) an input string whose characters now appear as separate elements,
    ("lost-str", s) an input string that disappeared otherwise (lossy, not a violation by itself)."""
    li, lo = leaves(inp), leaves(out)
    in_strs = {v for k, v in li if k == "str"}
    in_paths = {v for k, v in li if k == "path"}
    out_strs = {v for k, v in lo if k == "str"}
    out_paths = {v for k, v in lo if k == "path"}
    flags = []
    for s in sorted(out_strs):
        if s not in in_strs and s not in in_paths:
            flags.append(("new-str", s))
    for s in sorted(in_strs):
        if s in out_strs or s in out_paths or os.path.normpath(s) in out_paths or (
                s == "" and "." in out_paths):
            continue
        if len(s) >= 2 and all(ch in out_strs or ch in out_paths for ch in s):
            flags.append(("split-str", s))
        else:
            flags.append(("lost-str", s))
    return flags


def deep_same(a, b) -> bool:
    if type(a) is not type(b):
        return False
    if isinstance(a, cabc.Mapping):
        return len(a) == len(b) and all(deep_same(k1, k2) and deep_same(v1, v2)
                                        for (k1, v1), (k2, v2) in zip(a.items(), b.items()))
    if isinstance(a, (list, tuple)):
        return len(a) == len(b) and all(deep_same(x, y) for x, y in zip(a, b))
    if isinstance(a, (set, frozenset)):
        return a == b and {type(x) for x in a} == {type(x) for x in b}
    return a == b


def _norm(v, unordered):
    if isinstance(v, bool):
        return ("num", float(v))
    if isinstance(v, (int, float)):
        return ("num", float(v))
    if is_str(v):
        return ("txt", v)
    if isinstance(v, os.PathLike):
        return ("txt", os.fspath(v))
    if isinstance(v, cabc.Mapping):
        return ("map", frozenset((_norm(k, unordered), _norm(x, unordered)) for k, x in v.items()))
    if isinstance(v, (set, frozenset)) or (unordered and isinstance(v, (list, tuple, range))):
        items = [_norm(x, unordered) for x in v]
        return ("bag", frozenset((x, items.count(x)) for x in items))
    if isinstance(v, (list, tuple, range)):
        return ("seq", tuple(_norm(x, unordered) for x in v))
    return ("obj", repr(v))


def same_data(inp, out) -> bool:
    for u in (False, True):
        ni, no = _norm(inp, u), _norm(out, u)
        if ni == no or _norm([inp], u) == no:
            return True
    return False


def arity_positions(v, s) -> int:
    """Number of positions where the spec has a fixed-length tuple and the value is a sized
    container of another length (the case C21's statement sets aside)."""
    if isinstance(s, str):
        return 0
    c, a = s[0], s[1:]
    n = 0
    sized = isinstance(v, (list, tuple, set, frozenset, range))
    if c == "tuple":
        if sized and len(v) != len(a):
            return 1
        if sized:
            for x, t in zip(v, a):
                n += arity_positions(x, t)
        return n
    if c in ("opt", "union"):
        return max(arity_positions(v, x) for x in a)
    if c in ("dict", "Mapping"):
        if isinstance(v, cabc.Mapping):
            for k, x in v.items():
                n += arity_positions(k, a[0]) + arity_positions(x, a[1])
        return n
    if c == "MIO":
        n = arity_positions(v, a[0])
    if sized:
        n += sum(arity_positions(x, a[0]) for x in v)
    return n


def relax_arity(s):
    """The same spec with every fixed-length tuple replaced by a variadic tuple of the union of
    its element types (used only to decide whether a rejection is *only* about arity)."""
    if isinstance(s, str):
        return s
    c, a = s[0], [relax_arity(x) for x in s[1:]]
    if c == "tuple":
        uniq = []
        for x in a:
            if x not in uniq:
                uniq.append(x)
        if "Any" in uniq:
            return ["vtuple", "Any"]
        return ["vtuple", uniq[0] if len(uniq) == 1 else ["union"] + uniq]
    return [c] + a
