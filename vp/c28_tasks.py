"""Module-level pydra definitions used by the C28 scenarios (importable inside the batch jobs)."""
import os

from pydra.compose import python, workflow


@python.define
def Body(x: int, tag: str) -> int:
    """logs start/end to $VP_BODY_LOG; fails when the scheduler simulator says so (VP_BODY_FAIL=1)"""
    log = os.environ.get("VP_BODY_LOG")
    if log:
        with open(log, "a") as f:
            f.write(f"start {tag} {x} {os.getpid()}\n")
    if os.environ.get("VP_BODY_FAIL") == "1":
        raise RuntimeError(f"body {tag} told to fail")
    if log:
        with open(log, "a") as f:
            f.write(f"end {tag} {x}\n")
    return x + 1


@workflow.define
def Chain2(x: int) -> int:
    a = workflow.add(Body(x=x, tag="a"), name="a")
    b = workflow.add(Body(x=a.out, tag="b"), name="b")
    return b.out


@workflow.define
def Par3(x: int) -> int:
    a = workflow.add(Body(x=x, tag="a"), name="a")
    b = workflow.add(Body(x=x, tag="b"), name="b")
    c = workflow.add(Body(x=a.out, tag="c" ), name="c")
    d = workflow.add(Body(x=b.out, tag="d"), name="d")
    return c.out


EXPECT = {"single": lambda x: x + 1, "chain2": lambda x: x + 2, "par3": lambda x: x + 2}
NJOBS = {"single": 1, "chain2": 2, "par3": 4}


def build(kind, x):
    return {"single": lambda: Body(x=x, tag="s"), "chain2": lambda: Chain2(x=x), "par3": lambda: Par3(x=x)}[kind]()
