"""Independent reading of the command-line template grammar documented in the `shell.define`
docstring and docs/source/tutorial/5-shell.ipynb ("Command-line templates", "Defining
input/output types", "Flags and options", "Defaults", "Path templates for output files").

    template  := exe-word+ element*
    element   := field | option field | flag
    option    := -x | --long-opt            (the *next* field carries it; untyped field => str)
    flag      := option '<' name ['=' True|False] '>'      (no space: boolean, default False)
    field     := '<' [out| | modify|] name [':' type] [suffix] '>'
    type      := t | t ',' t ... (tuple) | t ',...' (variable-length tuple)
    t         := int|float|str|bool | file|directory|fs-object (generic namespace dropped) | mime/like
    suffix    := '?' optional (None default) | '+' one-or-more | '*' zero-or-more (empty list default)
                 | '=' default literal | '$' path template (outputs only)
    untyped positional field => generic fs-object; out| field without '$' => path template
    name + extension of its file type.

Nothing here imports pydra.  Types are described as JSON terms:
["cls", qualified-name] | ["opt", T] | ["multi", T] | ["tuple", [T...]] | ["vtuple", T].
"""
from __future__ import annotations

import ast

BUILTINS = {"int": "builtins.int", "float": "builtins.float", "str": "builtins.str", "bool": "builtins.bool"}
# MIME-like -> (class, extension, magic bytes hex) as documented by fileformats
FORMATS = {
    "file": ("fileformats.generic.file.File", None, None),
    "directory": ("fileformats.generic.directory.Directory", None, None),
    "fs-object": ("fileformats.generic.fsobject.FsObject", None, None),
    "generic/file": ("fileformats.generic.file.File", None, None),
    "generic/directory": ("fileformats.generic.directory.Directory", None, None),
    "text/csv": ("fileformats.text.unicode.Csv", ".csv", None),
    "text/plain": ("fileformats.text.unicode.Plain", None, None),
    "text/tab-separated-values": ("fileformats.text.unicode.Tsv", ".tsv", None),
    "text/text-file": ("fileformats.text.unicode.TextFile", ".txt", None),
    "application/json": ("fileformats.application.serialization.Json", ".json", None),
    "application/x-yaml": ("fileformats.application.serialization.Yaml", ".yaml", None),
    "application/gzip": ("fileformats.application.archive.Gzip", ".gz", "1f8b08"),
    "image/png": ("fileformats.image.raster.Png", ".png", "89504e470d0a1a0a"),
}
CLS_INFO = {v[0]: v for v in FORMATS.values()}
FSOBJECT = ["cls", "fileformats.generic.fsobject.FsObject"]
STR = ["cls", "builtins.str"]
BOOL = ["cls", "builtins.bool"]


class OutOfGrammar(Exception):
    """The string is not a sentence of the documented grammar (reference has no opinion)."""


def _atom(t):
    if t in BUILTINS:
        return ["cls", BUILTINS[t]]
    if t in FORMATS:
        return ["cls", FORMATS[t][0]]
    raise OutOfGrammar(f"unknown type {t!r}")


def _type(s):
    parts = s.split(",")
    if len(parts) == 1:
        return _atom(parts[0])
    if len(parts) == 2 and parts[1] == "...":
        return ["vtuple", _atom(parts[0])]
    return ["tuple", [_atom(p) for p in parts]]


def _literal(s):
    if len(s) >= 2 and s[0] == s[-1] and s[0] in "'\"":
        return s[1:-1]
    try:
        return ast.literal_eval(s)
    except Exception:
        raise OutOfGrammar(f"default {s!r} is not a literal")


def base_of(t):
    """strip opt / multi wrappers"""
    while t[0] in ("opt", "multi"):
        t = t[1]
    return t


def is_file_type(t):
    b = base_of(t)
    return b[0] == "cls" and b[1].startswith("fileformats.")


def _field(body, option):
    role = "arg"
    for pre, r in (("out|", "outarg"), ("modify|", "modify")):
        if body.startswith(pre):
            role, body = r, body[len(pre):]
    cut = min([i for i in (body.find("="), body.find("$")) if i >= 0], default=-1)
    head, op, tail = (body, None, None) if cut < 0 else (body[:cut], body[cut], body[cut + 1:])
    suffix = None
    if head and head[-1] in "?+*":
        if op:
            raise OutOfGrammar("suffix combined with default/path template")
        head, suffix = head[:-1], head[-1]
    name, _, tstr = head.partition(":")
    if not name.isidentifier():
        raise OutOfGrammar(f"field name {name!r}")
    f = {"name": name, "role": role, "argstr": option or "", "path_template": None, "may": None}
    # an out| field names an output *file*: untyped => fs-object whether or not a flag precedes it
    t = _type(tstr) if tstr else (STR if option and role != "outarg" else FSOBJECT)
    f["default"] = ["nodefault"]
    if suffix == "?":
        t, f["default"] = ["opt", t], ["value", None]
    elif suffix == "+":
        t = ["multi", t]
    elif suffix == "*":
        t, f["default"] = ["multi", t], ["emptylist"]
    elif op == "=":
        if tail == "":
            raise OutOfGrammar("empty default")
        f["default"] = ["value", _literal(tail)]
        if not tstr and not option:
            f["may"] = "untyped positional default (an fs-object with a literal default)"
    elif op == "$":
        if role != "outarg" or tail == "":
            raise OutOfGrammar("path template on a non-output")
        f["path_template"] = tail
    f["type"] = t
    if role == "outarg" and f["path_template"] is None:
        b = base_of(t)
        ext = CLS_INFO[b[1]][1] if b[0] == "cls" and b[1] in CLS_INFO else None
        f["path_template"] = name + (ext or "")
    if base_of(t) == BOOL and not option:
        f["may"] = "positional bool without a flag"
    return f


def parse(template: str) -> dict:
    toks = template.split()
    exe = []
    while toks and not toks[0].startswith(("<", "-")):
        exe.append(toks.pop(0))
    if not exe:
        raise OutOfGrammar("no executable")
    fields, option = [], None
    for tok in toks:
        if tok.startswith("<") and tok.endswith(">"):
            fields.append(_field(tok[1:-1], option))
            option = None
        elif tok.startswith("-") and "<" in tok and tok.endswith(">"):
            if option:
                raise OutOfGrammar("option followed by a flag")
            opt, _, body = tok[:-1].partition("<")
            name, eq, dflt = body.partition("=")
            if not name.isidentifier():
                raise OutOfGrammar(f"flag name {name!r}")
            d = _literal(dflt) if eq else False
            if not isinstance(d, bool):
                raise OutOfGrammar("flag default is not a bool")
            fields.append({"name": name, "role": "arg", "argstr": opt, "path_template": None, "may": None,
                           "type": BOOL, "default": ["value", d]})
        elif tok.startswith("-") and "<" not in tok and ">" not in tok:
            if option:
                raise OutOfGrammar("two options in a row")
            option = tok
        else:
            raise OutOfGrammar(f"token {tok!r}")
    if option:
        raise OutOfGrammar("dangling option")
    names = [f["name"] for f in fields]
    if len(set(names)) != len(names):
        raise OutOfGrammar("duplicate field name")
    for i, f in enumerate(fields):
        f["index"] = i + 1
    return {"executable": exe, "fields": fields,
            "outputs": sorted(f["name"] for f in fields if f["role"] in ("outarg", "modify"))}


# ------------------------------------------------------------------------------------------
# argv the template spells out for given values
# ------------------------------------------------------------------------------------------
ABSENT = "__absent__"      # value not supplied: default applies
OUTPATH = "__outpath__"    # outarg left to its path template: resolved path supplied by the caller


def _one(t, v):
    """argument words for one (non-multi) value of type t"""
    if t[0] in ("tuple", "vtuple"):
        return [str(e) for e in v]
    return [str(v)]


def argv(parsed: dict, values: dict, outpaths: dict) -> list:
    """values: name -> python value | absent (key missing).  outpaths: name -> str path expected for
    outargs that are not given explicitly (caller derives it from the job directory)."""
    out = list(parsed["executable"])
    for f in parsed["fields"]:
        n, t, opt = f["name"], f["type"], f["argstr"]
        if n in values:
            v = values[n]
        elif f["default"][0] == "value":
            v = f["default"][1]
        elif f["default"][0] == "emptylist":
            v = []
        elif f["role"] == "outarg":
            v = True
        else:
            raise ValueError(f"mandatory field {n} without a value")
        if f["role"] == "outarg":
            if v is True:
                v = outpaths[n]
            elif v is None or v is False:
                continue
        if v is None:
            continue
        if t[0] == "opt":
            t = t[1]
        if t == BOOL:
            if v:
                out += [opt] if opt else []
            continue
        items = v if t[0] == "multi" else [v]
        it = t[1] if t[0] == "multi" else t
        for x in items:
            out += ([opt] if opt else []) + _one(it, x)
    return out
