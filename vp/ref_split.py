"""Reference model of split / combine, written from the property statements (C01, C02):
outer [..] = Cartesian product, left-most slowest; inner (..) = positional pairing of
operands of equal shape; combiner removes the axes of the combined fields (and of every
field linked to them by an inner splitter) and groups outputs by the remaining axes."""
from collections import OrderedDict


class ShapeError(Exception):
    pass


def fields_of(spl):
    if isinstance(spl, str):
        return [spl]
    out = []
    for x in spl:
        out += fields_of(x)
    return out


def expand(spl, lens):
    """-> (list of {field: index}, shape tuple, axes = list of lists of linked fields)"""
    if isinstance(spl, str):
        n = lens[spl]
        return [{spl: i} for i in range(n)], (n,), [[spl]]
    parts = [expand(x, lens) for x in spl]
    if isinstance(spl, list):
        out, shape, axes = [{}], (), []
        for p, sh, ax in parts:
            out = [{**a, **b} for a in out for b in p]
            shape += sh
            axes += ax
        return out, shape, axes
    shapes = {sh for _, sh, _ in parts}
    if len(shapes) != 1:
        raise ShapeError(f"inner splitter operands have shapes {sorted(shapes)}")
    out = []
    for tup in zip(*[p for p, _, _ in parts]):
        d = {}
        for t in tup:
            d.update(t)
        out.append(d)
    naxes = len(parts[0][2])
    axes = [sum((p[2][i] for p in parts), []) for i in range(naxes)]
    return out, parts[0][1], axes


def combine(exp, axes, comb, render):
    """exp: expansion; comb: combined fields; render(d) -> output term of job d.
    -> grouped outputs (flat list when no axis remains)"""
    rem = [ax for ax in axes if not any(f in comb for f in ax)]
    groups = OrderedDict()
    for d in exp:
        key = tuple(d[ax[0]] for ax in rem)
        groups.setdefault(key, []).append(render(d))
    vals = list(groups.values())
    if not rem:
        return vals[0] if vals else []
    return vals


def to_py(tree):
    """JSON form -> python splitter: {"o":[...]} outer list, {"i":[...]} inner tuple, str leaf"""
    if isinstance(tree, str):
        return tree
    if "o" in tree:
        return [to_py(x) for x in tree["o"]]
    return tuple(to_py(x) for x in tree["i"])


def show(tree):
    if isinstance(tree, str):
        return tree
    if "o" in tree:
        return "[" + ",".join(show(x) for x in tree["o"]) + "]"
    return "(" + ",".join(show(x) for x in tree["i"]) + ")"


def all_trees(fields, max_arity=4):
    """every splitter tree using each of `fields` (in every order) exactly once, alternating
    or repeating outer/inner at each level, operators of arity >= 2; single field -> leaf"""
    from itertools import permutations
    out = []
    seen = set()
    for perm in permutations(fields):
        for t in _trees(list(perm)):
            k = show(t)
            if k not in seen:
                seen.add(k)
                out.append(t)
    return out


def _trees(seq):
    if len(seq) == 1:
        yield seq[0]
        return
    # split seq into k>=2 consecutive non-empty blocks
    for blocks in _compositions(seq):
        subs = [list(_trees(b)) for b in blocks]
        for op in ("o", "i"):
            for combo in _product(subs):
                yield {op: list(combo)}


def _compositions(seq):
    n = len(seq)
    for mask in range(1, 2 ** (n - 1)):
        blocks, cur = [], [seq[0]]
        for i in range(1, n):
            if mask >> (i - 1) & 1:
                blocks.append(cur)
                cur = []
            cur.append(seq[i])
        blocks.append(cur)
        yield blocks


def _product(lists):
    if not lists:
        yield ()
        return
    for x in lists[0]:
        for rest in _product(lists[1:]):
            yield (x,) + rest
