"""Fresh-interpreter session for C07 / C09: `python -m vp.hash_child job.json` prints one JSON line.

The parent chooses PYTHONHASHSEED, PYDRA_HASH_CACHE and VP_COUNTER through the environment.
job = {"mode": "checksums", "variant": int, "pickle": bool, "items": [item, ...]}
        -> {"res": [{"vh": value hash | "REJECT:..", "cs": task checksum | "REJECT:.."}, ...]}
      {"mode": "run", "variant": int, "worker": "debug"|"cf", "cache_root": str, "items": [...]}
        -> {"res": [{"cs":…, "out":…, "dirs": [cache dir names created by this run], "execs": n}, ...]}
      {"mode": "filehash", "paths": [[kind, path], ...]}  -> {"res": [hash, ...]}   (C09)
item = {"k": "value", "spec": spec} | {"k": "xor", "a":..,"c":..} | {"k": "outer-xor", "groups": 1|2, "n": int}
       | {"k": "file", "path": str}
"""
from __future__ import annotations

import json
import os
import sys


def make(item, variant):
    from vp import cache_tasks as T
    from vp import gen_values as G
    k = item["k"]
    if k == "value":
        return T.Describe(x=G.build(item["spec"], variant))
    if k == "xor":
        return T.XorTask(a=item["a"], c=item["c"])
    if k == "outer-xor":
        inner = T.XorTask(a=1, c=item["n"]) if item["groups"] == 2 else T.Xor1Task(a=1, c=item["n"])
        return T.Outer(inner=inner, k=item["n"])
    if k == "file":
        return T.ReadFile(f=item["path"])
    raise ValueError(k)


def main():
    sys.setrecursionlimit(3000)
    from vp import env
    env.bind()
    env.assert_bound()
    job = json.loads(open(sys.argv[1]).read())
    res = []
    if job["mode"] == "checksums":
        import cloudpickle as cp
        from pydra.utils.hash import hash_function
        for it in job["items"]:
            r = {}
            try:
                task = make(it, job["variant"])
                if job.get("pickle"):
                    task = cp.loads(cp.dumps(task))
            except Exception as e:
                res.append({"vh": "BUILD:" + type(e).__name__, "cs": "BUILD:" + type(e).__name__})
                continue
            if it["k"] in ("value", "outer-xor"):
                v = task.x if it["k"] == "value" else task.inner
                try:
                    r["vh"] = hash_function(v)
                except RecursionError:
                    r["vh"] = "REJECT:RecursionError"
                except Exception as e:
                    r["vh"] = "REJECT:" + type(e).__name__
            try:
                r["cs"] = task._checksum
            except RecursionError:
                r["cs"] = "REJECT:RecursionError"
            except Exception as e:
                r["cs"] = "REJECT:" + type(e).__name__
            res.append(r)
    elif job["mode"] == "run":
        from vp import cache_tasks as T
        root = job["cache_root"]
        os.makedirs(root, exist_ok=True)
        for idx, it in enumerate(job["items"]):
            # a cf pool costs seconds to start: only the first `cf_items` items use it
            worker = job["worker"] if idx < job.get("cf_items", 1) or job["worker"] != "cf" else "debug"
            before = set(os.listdir(root))
            n0 = T.executions()
            try:
                task = make(it, job["variant"])
                cs = task._checksum
                kw = {"n_procs": 2} if worker == "cf" else {}
                outs = task(cache_root=root, worker=worker, **kw)
                out = outs.out
            except Exception as e:
                res.append({"err": type(e).__name__ + ":" + str(e)[:200]})
                continue
            new = sorted(d for d in set(os.listdir(root)) - before if os.path.isdir(os.path.join(root, d)))
            res.append({"cs": cs, "out": out, "dirs": new, "execs": T.executions() - n0, "worker": worker})
    elif job["mode"] == "filehash":
        from fileformats.generic import Directory, File
        from pydra.utils.hash import hash_function
        for kind, p in job["paths"]:
            try:
                res.append(hash_function(File(p) if kind == "file" else Directory(p)))
            except Exception as e:
                res.append("ERR:" + type(e).__name__)
    print(json.dumps({"res": res, "hashseed": os.environ.get("PYTHONHASHSEED"),
                      "flags_hash_randomization": sys.flags.hash_randomization}))


if __name__ == "__main__":
    main()
