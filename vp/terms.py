"""Term-valued task bodies: every output names the job (node + inputs) that produced it,
so a returned value identifies exactly which jobs ran with which inputs, and the event log
records every body invocation (start/end/fail) across processes."""
import os
import time

from pydra.compose import python

from vp import evlog


def s(v):
    """canonical rendering of a term / list of terms"""
    if isinstance(v, (list, tuple)):
        return "[" + ",".join(s(x) for x in v) + "]"
    return str(v)


def gate_name(term):
    import hashlib
    return hashlib.sha1(term.encode()).hexdigest()[:20] + ".go"


def _gate(tok):
    g = os.environ.get("VP_GATES")
    if not g:
        return
    one, allg = os.path.join(g, gate_name(tok)), os.path.join(g, "ALL.go")
    while not (os.path.exists(one) or os.path.exists(allg)):
        time.sleep(0.005)


@python.define(outputs=["out"])
def F(a=None, b=None, c=None, d=None, e=None, tag: str = "F", fail: bool = False, gate: bool = False,
      failtok: str = "", sleep: float = 0.0):
    """returns the term tag(a=..,b=..); logs start/end; optional gate and failure"""
    args = {k: v for k, v in (("a", a), ("b", b), ("c", c), ("d", d), ("e", e)) if v is not None}
    term = tag + "(" + ",".join(k + "=" + s(v) for k, v in args.items()) + ")"
    evlog.emit("start", node=tag, term=term)
    if sleep:
        time.sleep(sleep)
    if gate:
        _gate(term)
    if fail or (failtok and any(v in failtok.split(",") for v in args.values() if isinstance(v, str))):
        evlog.emit("fail", node=tag, term=term)
        raise ValueError("boom-" + term)
    evlog.emit("end", node=tag, term=term)
    return term


@python.define(outputs=["out"])
def L(a=None, b=None, n: int = 2, tag: str = "L"):
    """list-producing node: returns [tag(a=..)[0], tag(a=..)[1], ...]"""
    args = {k: v for k, v in (("a", a), ("b", b)) if v is not None}
    term = tag + "(" + ",".join(k + "=" + s(v) for k, v in args.items()) + ")"
    evlog.emit("start", node=tag, term=term)
    evlog.emit("end", node=tag, term=term)
    return [f"{term}[{i}]" for i in range(n)]


@python.define(outputs={"out": str})
def FT(a: str = "", b: str = "", tag: str = "FT") -> str:
    """typed variant of F (str inputs, str output)"""
    args = {k: v for k, v in (("a", a), ("b", b)) if v}
    term = tag + "(" + ",".join(k + "=" + s(v) for k, v in args.items()) + ")"
    evlog.emit("start", node=tag, term=term)
    evlog.emit("end", node=tag, term=term)
    return term
