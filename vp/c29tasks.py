"""Module-level task definitions used by C29 (importable by name in the fresh child interpreter)."""
from pathlib import Path

from fileformats.generic import File
from pydra.compose import python


@python.define(outputs=["total", "shape", "dtype"])
def NP(a, k: int = 1):
    return float(a.sum() * k), list(a.shape), str(a.dtype)


@python.define(outputs=["out"])
def FileT(f: File, suffix: str = ""):
    return Path(f).read_text() + suffix
