"""Nested-loop ("natural join") reference evaluation of a vp.gen_wf spec, written from the C03
statement: a node inherits the remaining axes of every upstream node (in input-field order,
first occurrence wins; inputs carrying the same originating axis are aligned, not multiplied),
outer-multiplied with its own splitter (own splitter fastest); a job with coordinate c receives
from upstream U the output(s) of U's job(s) that agree with c on U's axes; combiners group as
for single tasks (vp.ref_split).

evaluate(spec) -> {node name: NodeRes}; NodeRes.jobs = [(coord, term)] before the combiner in
enumeration order, NodeRes.final() = value of the node output as the workflow would return it.
"""
from __future__ import annotations

from collections import OrderedDict

from vp import ref_split as R

FIELD_ORDER = ["a", "b", "c", "d", "e"]


def s(v):
    if isinstance(v, (list, tuple)):
        return "[" + ",".join(s(x) for x in v) + "]"
    return str(v)


class NodeRes:
    def __init__(self, name, axes_all, jobs, rem, table, combined, failed=None):
        self.name, self.axes_all, self.jobs, self.axes = name, axes_all, jobs, rem
        self.table, self.combined = table, combined
        self.coords = [dict(k) for k in table]

    def value(self, c):
        return self.table[tuple((ax, c[ax]) for ax in self.axes)]

    def final(self):
        vals = list(self.table.values())
        if not self.axes:
            return vals[0] if vals else []
        return vals


def own_expansion(nd, res):
    """own splitter -> (list of {axis: idx}, axes list, {field: (axis, values | ("node", U))}, {axis: size})"""
    sp = nd.get("split")
    if not sp:
        return [{}], [], {}, {}
    vals, lens = {}, {}
    for f, r in sp["vals"].items():
        if r[0] == "lit":
            vals[f] = r[1]
            lens[f] = len(r[1])
        elif r[0] == "node":
            # split over the list output of an upstream (uncombined, list-producing) node: every upstream
            # job contributes the same number of elements
            vals[f] = ("node", r[1])
            lens[f] = res[r[1]].list_len
        else:
            raise NotImplementedError("split over workflow input")
    exp, shape, axes = R.expand(R.to_py(sp["form"]), lens)
    axid = {}
    ax_ids = []
    for ax in axes:
        a = (nd["name"],) + tuple(ax)
        ax_ids.append(a)
        for f in ax:
            axid[f] = a
    out = [{axid[f]: i for f, i in d.items()} for d in exp]
    sizes = dict(zip(ax_ids, shape))
    return out, ax_ids, {f: (axid[f], vals[f]) for f in vals}, sizes


def upstream_of(nd):
    """upstream node names in the order pydra meets them: input fields a..e, split-over-output fields included"""
    ups = []
    ins = dict(nd.get("inputs", {}))
    for f, r in ((nd.get("split") or {}).get("vals", {})).items():
        if r[0] == "node":
            ins[f] = r
    for f in FIELD_ORDER:
        r = ins.get(f)
        if r and r[0] == "node" and r[1] not in ups:
            ups.append(r[1])
    return ups


def evaluate(spec, wfin=None, jobs_out=None):
    """jobs_out: optional list collecting (node name, term) of every job incl. nested workflows' jobs"""
    res = {}
    wfin = wfin or {}
    for nd in spec["nodes"]:
        name = nd["name"]
        tag = nd.get("tag", name)
        cur, axes = [{}], []
        inputs = nd.get("inputs", {})
        for u in upstream_of(nd):
            U = res[u]
            if not U.axes:
                continue
            new = []
            for c in cur:
                for cu in U.coords:
                    if all(c.get(k, v) == v for k, v in cu.items()):
                        new.append({**c, **cu})
            cur = new
            for k in U.axes:
                if k not in axes:
                    axes.append(k)
        own, own_axes, fieldax, own_sizes = own_expansion(nd, res)
        sizes = {}
        for u in upstream_of(nd):
            sizes.update(res[u].sizes)
        sizes.update(own_sizes)
        cur = [{**c, **o} for c in cur for o in own]
        axes = axes + own_axes
        jobs = []
        kind = nd.get("kind", "F")
        for c in cur:
            args = OrderedDict()
            for f in FIELD_ORDER:
                if f in fieldax:
                    ax, vals = fieldax[f]
                    if isinstance(vals, tuple):
                        args[f] = res[vals[1]].value(c)[c[ax]]
                    else:
                        args[f] = vals[c[ax]]
                elif f in inputs:
                    k, v = inputs[f][0], inputs[f][1]
                    if k == "lit":
                        args[f] = v
                    elif k == "wfin":
                        args[f] = wfin[v]
                    else:
                        args[f] = res[v].value(c)
            if kind == "L":
                base = tag + "(" + ",".join(k + "=" + s(v) for k, v in args.items() if v is not None) + ")"
                out = [f"{base}[{i}]" for i in range(nd.get("n", 2))]
                term = base
            elif kind == "W":
                sub = evaluate(nd["sub"], wfin={k: v for k, v in args.items()}, jobs_out=jobs_out)
                out = sub[nd["sub"]["out"][0]].final()
                term = None
            else:
                term = tag + "(" + ",".join(k + "=" + s(v) for k, v in args.items() if v is not None) + ")"
                out = term
            jobs.append((c, term, out))
            if jobs_out is not None and term is not None:
                jobs_out.append((name, term))
        comb = nd.get("comb") or []

        def combined_axis(ax):
            if ax[0] == name and any(f in comb for f in ax[1:]):
                return True
            return any(cf.split(".")[0] == ax[0] and cf.split(".")[1] in ax[1:] for cf in comb if "." in cf)
        rem = [ax for ax in axes if not combined_axis(ax)]
        groups = OrderedDict()
        for c, term, out in jobs:
            groups.setdefault(tuple((ax, c[ax]) for ax in rem), []).append(out)
        combined = len(rem) < len(axes)
        table = OrderedDict((k, (v if combined else v[0])) for k, v in groups.items())
        if combined and not jobs and all(sizes[ax] > 0 for ax in rem):
            # nothing ran (some combined axis is empty).  The nested loops still visit every assignment of the axes that
            # remain after the combiner and collect an empty list for each
            import itertools
            for idx in itertools.product(*[range(sizes[ax]) for ax in rem]):
                table.setdefault(tuple(zip(rem, idx)), [])
        nr = NodeRes(name, axes, [(c, t) for c, t, _ in jobs if t is not None], rem, table, combined)
        nr.sizes = {ax: sizes[ax] for ax in rem}
        nr.list_len = nd.get("n", 2) if kind == "L" and not combined else None
        res[name] = nr
    return res


def shared_origin_nodes(spec, res):
    """names of nodes that have >= 2 distinct upstream nodes whose remaining axes intersect"""
    bad = []
    for nd in spec["nodes"]:
        ups = upstream_of(nd)
        hit = False
        for i, u in enumerate(ups):
            for v in ups[i + 1:]:
                if set(res[u].axes) & set(res[v].axes):
                    hit = True
        if hit:
            bad.append(nd["name"])
    return bad


def descendants_or_self(spec, names):
    out = set(names)
    changed = True
    while changed:
        changed = False
        for nd in spec["nodes"]:
            if nd["name"] in out:
                continue
            if any(u in out for u in upstream_of(nd)):
                out.add(nd["name"])
                changed = True
    return out
