"""Generators for C25: template strings from the documented grammar (see vp.ref_template), and abstract
value assignments for the fields of a parsed template.  Only strings are produced here; the meaning
of a template is worked out by the reference from the string alone."""
from __future__ import annotations

EXES = ["cmd", "my-tool", "tool.sh", "run_it", "a2b"]
SUBS = ["sub", "do-it", "x1"]
NAMES = ["a", "b", "in_file", "x1", "Val", "n_iter", "label", "thr", "c", "d", "src", "dest", "out_1", "res", "flag_q", "v"]
OPTS = ["-o", "-x", "--opt", "--long-opt", "--in_1", "-2", "--n", "-I", "--out-file", "--Max"]
SCALARS = ["int", "float", "str"]
FILES = ["file", "directory", "fs-object", "generic/file", "generic/directory", "text/csv", "text/plain",
         "text/tab-separated-values", "text/text-file", "application/json", "application/x-yaml",
         "application/gzip", "image/png"]
OUT_FILES = ["file", "directory", "text/csv", "text/plain", "application/json", "application/gzip", "image/png",
             "text/text-file", "generic/file"]
STR_ALPHA = "abcXYZ019_.-/:+*?$,=@%"
TMPL_STEMS = ["out", "result", "res_v2", "o-1", "data_out", "Zipped", "a+b", "x,y"]
FREE_EXTS = ["", ".txt", ".nii.gz", ".dat", ".out"]
OUT_EXT = {"text/csv": ".csv", "application/json": ".json", "application/gzip": ".gz", "image/png": ".png",
           "text/text-file": ".txt", "directory": ""}


def _str_lit(rng, hostile):
    n = rng.randint(1, 6)
    alpha = STR_ALPHA if hostile else "abcXYZ019_.-"
    s = "".join(rng.choice(alpha) for _ in range(n))
    q = rng.choice("'\"")
    return q + s + q


def _default_for(rng, t, hostile):
    if t == "int":
        return str(rng.choice([1, 3, 99, -3, 12, 7]))
    if t == "float":
        return rng.choice(["1.5", "2.25", "-0.5", "10.0", "3.125"])
    if t == "str":
        return _str_lit(rng, hostile)
    if t == "bool":
        return rng.choice(["True", "False"])
    raise ValueError(t)


def gen_field(rng, name, after_option, hostile=True):
    """one '<...>' token"""
    r = rng.random()
    if r < 0.16:  # output
        otype = None if rng.random() < 0.25 else rng.choice(OUT_FILES)
        body = f"out|{name}" + (f":{otype}" if otype else "")
        s = rng.random()
        if s < 0.35:
            # the file name the template gives carries the extension its declared format requires
            t = rng.choice(TMPL_STEMS) + (OUT_EXT[otype] if otype in OUT_EXT else rng.choice(FREE_EXTS))
            if rng.random() < 0.15:
                t = "{REF}_" + t  # REF replaced by the caller with an earlier scalar field name, if any
            body += "$" + t
        elif s < 0.5 and ":" in body:
            body += "?"
        return "<" + body + ">"
    if r < 0.22:
        return f"<modify|{name}:{rng.choice(['file', 'text/csv', 'text/plain', 'application/json'])}>"
    r = rng.random()
    if r < 0.12:
        return f"<{name}>" if not after_option or rng.random() < 0.7 else f"<{name}?>"
    if r < 0.62:
        t = rng.choice(SCALARS) if rng.random() < 0.85 else "bool"
        if t == "bool" and not after_option and rng.random() < 0.8:
            t = "int"
    elif r < 0.8:
        t = rng.choice(FILES)
    else:
        k = rng.random()
        if k < 0.5:
            t = ",".join(rng.choice(SCALARS) for _ in range(rng.randint(2, 3)))
        else:
            t = rng.choice(SCALARS) + ",..."
    body = f"{name}:{t}"
    s = rng.random()
    if s < 0.16:
        body += "?"
    elif s < 0.30 and t != "bool":  # lists of booleans: what is printed per element is C22's subject
        body += "+"
    elif s < 0.44 and t != "bool":
        body += "*"
    elif s < 0.62 and t in ("int", "float", "str", "bool"):
        body += "=" + _default_for(rng, t, hostile)
    elif s < 0.66 and "," in t and "..." not in t:
        body += "=(" + ",".join(_default_for(rng, p, False) for p in t.split(",")) + ")"
    return "<" + body + ">"


def gen_template(rng, max_elems=6, hostile=True):
    words = [rng.choice(EXES)]
    if rng.random() < 0.25:
        words.append(rng.choice(SUBS))
    names = rng.sample(NAMES, max_elems)
    opts = rng.sample(OPTS, max_elems)
    n = rng.randint(1, max_elems)
    scalars = []
    for i in range(n):
        name = names[i]
        r = rng.random()
        if r < 0.15:
            tok = f"{opts[i]}<{name}" + (rng.choice(["=True", "=False"]) if rng.random() < 0.4 else "") + ">"
            words.append(tok)
            continue
        after = r < 0.5
        if after:
            words.append(opts[i])
        tok = gen_field(rng, name, after, hostile)
        if after and rng.random() < 0.12 and tok.startswith(f"<{name}") and ":" not in tok and "|" not in tok:
            tok = f"<{name}=" + _str_lit(rng, hostile) + ">"  # untyped default after an option => str
        if "{REF}" in tok:
            tok = tok.replace("{REF}", "{" + rng.choice(scalars) + "}") if scalars else tok.replace("{REF}_", "")
        if tok == f"<{name}:int>":
            scalars.append(name)
        words.append(tok)
    sep = " " if rng.random() < 0.9 else "  "
    return sep.join(words)


# ------------------------------------------------------------------------------------------
# abstract values for a parsed template (JSON): scalars as themselves, files as {"file": basename, "cls": ...}
# ------------------------------------------------------------------------------------------
STR_VALS = ["abc", "x1", "Name_2", "a.b", "k=v", "v-1", "path/to", "7up", "--dash", "@x"]


def _scalar(rng, cls, i):
    if cls == "builtins.int":
        return rng.choice([1, 2, 5, 42, -7, 100])
    if cls == "builtins.float":
        return rng.choice([1.5, 2.25, -0.5, 10.0, 0.125])
    if cls == "builtins.str":
        return rng.choice(STR_VALS)
    if cls == "builtins.bool":
        return rng.random() < 0.6
    return {"file": f"in{i}_{rng.randint(0, 99)}", "cls": cls}


def _value(rng, t, i):
    if t[0] == "opt":
        return _value(rng, t[1], i)
    if t[0] == "multi":
        return [_value(rng, t[1], i * 10 + k) for k in range(rng.randint(1, 3))]
    if t[0] == "tuple":
        return {"tuple": [_scalar(rng, e[1], i) for e in t[1]]}
    if t[0] == "vtuple":
        return {"tuple": [_scalar(rng, t[1][1], i) for _ in range(rng.randint(1, 3))]}
    return _scalar(rng, t[1], i)


def gen_values(rng, parsed, minimal=False):
    """name -> abstract value; fields with defaults are left out when `minimal` (else at random)"""
    vals = {}
    for i, f in enumerate(parsed["fields"]):
        has_default = f["default"][0] != "nodefault"
        if f["role"] == "outarg":
            if not minimal and rng.random() < 0.25:
                vals[f["name"]] = True
            elif not minimal and rng.random() < 0.2:
                vals[f["name"]] = {"explicit": f"given_{i}"}
            continue
        if has_default and (minimal or rng.random() < 0.4):
            continue
        vals[f["name"]] = _value(rng, f["type"], i)
    return vals
