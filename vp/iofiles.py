"""Helpers shared by the C33 / C34 file-handling monitors (sources with unique content,
nested value specs, model-free reports).

A *source* is a file or directory created by the harness with content that is unique to it,
so the digest of whatever pydra hands back identifies which source it came from without any
model of pydra's naming scheme.  A *value spec* is a JSON tree:
    {"t": "list"|"tuple", "v": [spec...]}   {"t": "dict", "v": {key: spec}}
    {"t": "F"|"D", "src": <source id>}       {"t": "S", "src": [ids]}  (SetOf[File])
    {"t": "lit", "v": <json scalar>}
`build` turns a spec into the python value (one python object per source id, so a repeated id
is a repeated *object*; "fresh": true forces a new, equal object), `report` turns any value
pydra returned / a task body received into a JSON tree of the same shape whose file leaves say
what is on disk at that path.
"""
from __future__ import annotations

import hashlib
import os
from pathlib import Path


def file_digest(p) -> str:
    h = hashlib.sha1()
    with open(p, "rb") as f:
        h.update(f.read())
    return h.hexdigest()[:16]


def digest(p) -> str | None:
    """content digest of a file, or of a directory tree (names + contents); None if unreadable"""
    p = Path(p)
    try:
        if p.is_dir():
            h = hashlib.sha1()
            for dp, dns, fns in sorted(os.walk(p)):
                dns.sort()
                for fn in sorted(fns):
                    q = Path(dp) / fn
                    h.update(str(q.relative_to(p)).encode() + b"\0" + file_digest(q).encode() + b"\0")
            return "d:" + h.hexdigest()[:16]
        return file_digest(p)
    except OSError:
        return None


# ------------------------------------------------------------------------------------------
# sources
# ------------------------------------------------------------------------------------------

def make_sources(root: Path, layout: list) -> dict:
    """layout: [{"id": "s0", "kind": "F"|"D", "rel": "d1/x.txt", "link": None|"abs"|"rel"}]
    Creates them under root with unique content; returns {id: {kind, path, digest}}."""
    cat = {}
    for e in layout:
        p = root / e["rel"]
        p.parent.mkdir(parents=True, exist_ok=True)
        if e["kind"] == "F":
            real = p
            if e.get("link"):
                real = root / "_real" / (e["id"] + "-" + p.name)
                real.parent.mkdir(parents=True, exist_ok=True)
            # "alike": byte-identical content shared by several distinct sources (log files, empty masks, ...)
            real.write_text(f"alike-{e['alike']}\n" if e.get("alike") is not None else f"content-of-{e['id']}-{e['rel']}\n")
            if e.get("link") == "abs":
                os.symlink(real, p)
            elif e.get("link") == "rel":
                os.symlink(os.path.relpath(real, p.parent), p)
        else:
            p.mkdir(exist_ok=True)
            who = f"alike-{e['alike']}" if e.get("alike") is not None else e["id"]
            (p / "member.txt").write_text(f"member-of-{who}\n")
            (p / "inner").mkdir(exist_ok=True)
            (p / "inner" / "x.txt").write_text(f"inner-of-{who}\n")
        cat[e["id"]] = {"kind": e["kind"], "path": str(p), "digest": digest(p), "link": e.get("link")}
    return cat


def redigest(cat: dict) -> dict:
    return {k: digest(v["path"]) for k, v in cat.items()}


# ------------------------------------------------------------------------------------------
# specs -> values
# ------------------------------------------------------------------------------------------

def build(spec, cat, objs=None):
    from fileformats.generic import Directory, File, SetOf
    if objs is None:
        objs = {}
    t = spec["t"]
    if t in ("list", "tuple"):
        vals = [build(x, cat, objs) for x in spec["v"]]
        return vals if t == "list" else tuple(vals)
    if t == "dict":
        return {k: build(x, cat, objs) for k, x in spec["v"].items()}
    if t == "lit":
        return spec["v"]
    if t == "S":
        return SetOf[File]([cat[s]["path"] for s in spec["src"]])
    key = spec["src"]
    if spec.get("fresh") or key not in objs:
        o = (File if t == "F" else Directory)(cat[key]["path"])
        if spec.get("fresh"):
            return o
        objs[key] = o
    return objs[key]


def leaves(spec, path=()):
    """[(position, leaf spec)] for the file leaves of a spec"""
    t = spec["t"]
    if t in ("list", "tuple"):
        return [x for i, s in enumerate(spec["v"]) for x in leaves(s, path + (i,))]
    if t == "dict":
        return [x for k, s in spec["v"].items() for x in leaves(s, path + (k,))]
    if t == "lit":
        return []
    return [(path, spec)]


def spec_shape(spec):
    t = spec["t"]
    if t in ("list", "tuple"):
        return [t] + [spec_shape(x) for x in spec["v"]]
    if t == "dict":
        return {"dict": {k: spec_shape(x) for k, x in spec["v"].items()}}
    if t == "lit":
        return ["lit", spec["v"]]
    return t


# ------------------------------------------------------------------------------------------
# values -> reports
# ------------------------------------------------------------------------------------------

def path_report(p) -> dict:
    p = str(p)
    r = {"path": p, "islink": os.path.islink(p), "exists": os.path.exists(p), "digest": digest(p)}
    try:
        st = os.stat(p)
        r["ino"] = [st.st_dev, st.st_ino]
        r["real"] = os.path.realpath(p)
    except OSError:
        r["ino"] = None
        r["real"] = None
    return r


def report(v):
    from fileformats.core import FileSet
    from fileformats.generic import Directory, File
    if isinstance(v, FileSet):
        if isinstance(v, Directory):
            return {"leaf": "D", "obj": id(v), **path_report(v.fspath)}
        if isinstance(v, File) and len(v.fspaths) == 1:
            return {"leaf": "F", "obj": id(v), **path_report(v.fspath)}
        return {"leaf": "S", "obj": id(v), "members": [path_report(p) for p in sorted(v.fspaths)]}
    if isinstance(v, dict):
        return {"dict": {str(k): report(x) for k, x in v.items()}}
    if isinstance(v, (list, tuple)):
        # MultiInputObj / MultiOutputObj are list subclasses: reported as lists
        return ["tuple" if isinstance(v, tuple) else "list"] + [report(x) for x in v]
    if isinstance(v, (str, int, float, bool)) or v is None:
        return ["lit", v]
    if isinstance(v, os.PathLike):
        return ["lit", "PATH:" + os.fspath(v)]
    return ["lit", "REPR:" + repr(v)[:80]]


def report_shape(r):
    if isinstance(r, dict) and "leaf" in r:
        return r["leaf"]
    if isinstance(r, dict):
        return {"dict": {k: report_shape(x) for k, x in r["dict"].items()}}
    if r[0] == "lit":
        return list(r)
    return [r[0]] + [report_shape(x) for x in r[1:]]


def report_leaves(r, path=()):
    if isinstance(r, dict) and "leaf" in r:
        return [(path, r)]
    if isinstance(r, dict):
        return [x for k, s in r["dict"].items() for x in report_leaves(s, path + (k,))]
    if r[0] == "lit":
        return []
    return [x for i, s in enumerate(r[1:]) for x in report_leaves(s, path + (i,))]


def inside(p, d) -> bool:
    p, d = os.path.abspath(str(p)), os.path.abspath(str(d))
    return p == d or p.startswith(d.rstrip("/") + "/")


def mutate(p):
    """append to a file (or to the first regular file below a directory); returns the path written"""
    p = Path(p)
    if p.is_dir():
        for dp, dns, fns in sorted(os.walk(p)):
            dns.sort()
            for fn in sorted(fns):
                p = Path(dp) / fn
                break
            else:
                continue
            break
    with open(p, "a") as f:
        f.write("MUTATED-BY-BODY\n")
    return str(p)
