"""Reference reading of pydra's declarative input rules (C31), written from the property statement.

A *spec* is {"kind", "fields": [{"name","type","default","requires", ...}], "xor": [[name|None,...],...]}.
An *assignment* maps field name -> value token; the token "UNSET" means "not passed" (the
field then holds its default, or nothing at all when it is mandatory).

"set" (statement): a field holds a value that is neither None nor False (nor missing).
Within the requires rule 0 and "" are set values (the statement lets them be *allowed values* of a set field).
The statement is silent on 0 and "" in exclusive groups and on False held by a `bool | None` field that is
*required* by another one; each such occurrence is read both ways independently (three-valued evaluation) and a
case whose outcome depends on a reading is classified MAY.
"""
UNSET = "UNSET"
NODEF = "NODEF"


def effective(spec, assign):
    """name -> value the task object holds (MISSING for an unset mandatory field)"""
    out = {}
    for f in spec["fields"]:
        v = assign.get(f["name"], UNSET)
        if v == UNSET:
            v = "MISSING" if f["default"] == NODEF else f["default"]
        out[f["name"]] = v
    return out


def _is_set(v, ftype, role):
    """True / False / None (statement silent: this occurrence may be read either way)"""
    if v == "MISSING" or v is None:
        return False
    if v is False:
        return None if (role == "required" and ftype == "bool?") else False
    if v is True:
        return True
    if v == 0 or v == "":
        # inside the requires rule the statement itself makes a falsy value a set one ("set (to an allowed value
        # where given)": 0 can be an allowed value), and "set" has one meaning within a rule; for exclusive
        # groups the statement is silent
        return None if role == "xor" else True
    return True


def _and(xs):
    xs = list(xs)
    if any(x is False for x in xs):
        return False
    return None if any(x is None for x in xs) else True


def _or(xs):
    xs = list(xs)
    if any(x is True for x in xs):
        return True
    return None if any(x is None for x in xs) else False


def violations(spec, assign):
    """-> (definite violations, possible violations): three-valued (Kleene) evaluation in which every
    silent occurrence is read independently, so a rule is 'definitely violated' only if it is violated
    under every reading and 'possibly violated' if under some."""
    val = effective(spec, assign)
    typ = {f["name"]: f["type"] for f in spec["fields"]}
    sure, maybe = [], []

    def add(kind, what, v):  # v: truth value of "rule is violated"
        if v is True:
            sure.append((kind, what))
        elif v is None:
            maybe.append((kind, what))
    for f in spec["fields"]:
        n = f["name"]
        if val[n] == "MISSING":
            sure.append(("mandatory", n))
        if f.get("requires"):
            owner = _is_set(val[n], typ[n], "owner")
            sat = _or(_and(_and([_is_set(val[r[0]], typ[r[0]], "required"),
                                 True if (len(r) == 1 or r[1] is None) else (val[r[0]] in r[1])])
                           for r in alt) for alt in f["requires"])
            add("requires", n, _and([owner, None if sat is None else (not sat)]))
    for g in spec.get("xor", []):
        names = [x for x in g if x is not None]
        st = [_is_set(val[x], typ[x], "xor") for x in names]
        k, u = sum(1 for x in st if x is True), sum(1 for x in st if x is None)
        add("xor>1", tuple(names), True if k > 1 else (False if k + u <= 1 else None))
        if None not in g:
            add("xor=0", tuple(names), True if k + u == 0 else (False if k >= 1 else None))
    return sure, maybe


def expect(spec, assign):
    """-> ("accept"|"reject"|"may", definite violations, possible violations)"""
    sure, maybe = violations(spec, assign)
    if sure:
        return "reject", sure, maybe
    return ("may" if maybe else "accept"), sure, maybe
