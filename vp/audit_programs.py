"""Programs for the C36 provenance monitor (module level, so pool workers can import them):
hooks that trace executed jobs into the event log, and the task / workflow pool."""
from pathlib import Path

from fileformats.generic import File
from pydra.compose import python, shell, workflow
from pydra.engine.hooks import TaskHooks

from vp import evlog
from vp.terms import F


def h_pre(job):
    evlog.emit("job_start", name=job.name, uid=job.uid)


def h_post(job, result):
    evlog.emit("job_end", name=job.name, uid=job.uid, errored=bool(result.errored),
               aid=getattr(job.audit, "aid", None))


HOOKS = TaskHooks(pre_run_task=h_pre, post_run_task=h_post)


@python.define(outputs=["out"])
def Cat(f: File, tag: str) -> str:
    return tag + ":" + Path(f).read_text()


@shell.define
class Sh(shell.Task["Sh.Outputs"]):
    executable = "echo"
    text: str = shell.arg(argstr="", position=1)

    class Outputs(shell.Outputs):
        pass


@workflow.define(outputs=["out"])
def Chain(x: str, n: int, fail_at: int):
    """n in {2, 3} nodes in a chain; node number fail_at (if < n) raises"""
    a = workflow.add(F(a=x, tag="A", fail=(fail_at == 0)), name="A", hooks=HOOKS)
    b = workflow.add(F(a=a.out, tag="B", fail=(fail_at == 1)), name="B", hooks=HOOKS)
    if n == 2:
        return b.out
    c = workflow.add(F(a=b.out, tag="C", fail=(fail_at == 2)), name="C", hooks=HOOKS)
    return c.out


@workflow.define(outputs=["out"])
def Nested(x: str):
    a = workflow.add(F(a=x, tag="P"), name="P", hooks=HOOKS)
    inner = workflow.add(Chain(x=a.out, n=2, fail_at=9), name="inner", hooks=HOOKS)
    return inner.out
