"""python -m vp.c28_runner spec.json out.json — one submission through a batch worker (own process,
so that the scheduler simulator / the wall-clock watchdog can kill it)."""
import json
import os
import sys
import traceback


def main():
    spec = json.load(open(sys.argv[1]))
    from vp import env
    env.bind(spec["scratch"])
    env.assert_bound()
    os.environ["VP_RUNNER_PID"] = str(os.getpid())
    from pydra.engine.submitter import Submitter
    from vp import c28_tasks as T
    res = {"outcome": None}
    try:
        with Submitter(worker=spec["worker"], cache_root=spec["cache_root"], **spec["worker_kw"]) as sub:
            r = sub(T.build(spec["wf"], spec["x"]))
        res["errored"] = bool(r.errored)
        if r.errored:
            res["outcome"] = "failed"
            res["exc"] = "result.errored"
        else:
            res["outcome"] = "complete"
            res["value"] = r.outputs.out
    except Exception as e:
        res["outcome"] = "failed"
        res["exc_type"] = type(e).__name__
        res["exc"] = "".join(traceback.format_exception(type(e), e, e.__traceback__))[-3000:]
    with open(sys.argv[2], "w") as f:
        json.dump(res, f)


if __name__ == "__main__":
    main()
