"""python -m vp.c28_runner spec.json out.json — one submission through a batch worker (own process,
so that the scheduler simulator / the wall-clock watchdog can kill it)."""
import json
import os
import sys
import threading
import time
import traceback

SPIN_FRAMES = ("expand_workflow_async", "get_runnable_tasks", "update_status")


def spin_detector(main_id, log, out, cpu_quiet=6.0, period=0.25):
    """Conclusive live-lock evidence (not a timeout): while this process burnt `cpu_quiet` CPU-seconds no
    scheduler command was issued and EVERY sample of the main thread's stack was executing the submitter's
    workflow loop (never waiting in the event loop's select) => write outcome "livelock" with the stack and
    exit.  CPU time, not wall time, so that a slow (overloaded) machine cannot trigger it."""
    since, last_size, samples = None, -1, 0
    t0, parent = time.time(), os.getppid()
    deadline = float(os.environ.get("VP_RUNNER_DEADLINE") or 900)
    while True:
        time.sleep(period)
        if time.time() - t0 > deadline or os.getppid() != parent:
            # never outlive the case: hard deadline, or the harness worker that started us is gone
            try:
                os.killpg(os.getpgrp(), 9) if os.getpgrp() == os.getpid() else None
            finally:
                os._exit(4)
        fr = sys._current_frames().get(main_id)
        names = []
        while fr is not None:
            names.append(fr.f_code.co_name)
            fr = fr.f_back
        try:
            size = os.path.getsize(log)
        except OSError:
            size = 0
        spinning = "select" not in names and any(n in SPIN_FRAMES for n in names)
        if not spinning or size != last_size:
            since, last_size, samples = None, size, 0
            continue
        if since is None:
            since = time.process_time()
        samples += 1
        if time.process_time() - since >= cpu_quiet and samples >= 20:
            with open(out, "w") as f:
                json.dump({"outcome": "livelock", "stack": [n for n in names if n in SPIN_FRAMES] + names[:10],
                           "cpu_quiet_s": cpu_quiet, "samples": samples}, f)
            os._exit(3)


def main():
    spec = json.load(open(sys.argv[1]))
    from vp import env
    env.bind(spec["scratch"])
    env.assert_bound()
    os.environ["VP_RUNNER_PID"] = str(os.getpid())
    from pydra.engine.submitter import Submitter
    from vp import c28_tasks as T
    res = {"outcome": None}
    threading.Thread(target=spin_detector, daemon=True,
                     args=(threading.main_thread().ident, os.environ.get("VP_ARGV_LOG", ""), sys.argv[2])).start()
    try:
        with Submitter(worker=spec["worker"], cache_root=spec["cache_root"], **spec["worker_kw"]) as sub:
            r = sub(T.build(spec["wf"], spec["x"]))
        res["errored"] = bool(r.errored)
        if r.errored:
            res["outcome"] = "failed"
            res["exc"] = "result.errored"
        else:
            res["outcome"] = "complete"
            res["value"] = r.outputs.out
    except Exception as e:
        res["outcome"] = "failed"
        res["exc_type"] = type(e).__name__
        res["exc"] = "".join(traceback.format_exception(type(e), e, e.__traceback__))[-3000:]
    with open(sys.argv[2], "w") as f:
        json.dump(res, f)


if __name__ == "__main__":
    main()
