"""Child process driver for crash / fault scenarios:
   python -m vp.fpchild <scenario> <cache_root> <evlog> <out.json> [rerun]
Builds the scenario's task, submits it with the real engine (failpoints from env VERIF_FAILPOINT),
and writes {"out":..., "err":..., "trace":[...], "events": n} to out.json."""
import json
import os
import sys
import threading
import time


def build(scenario):
    from vp.terms import F
    from vp.gen_wf import GenWF
    if scenario == "py":
        return F(a="x", b=["p", "q"], tag="P"), "debug", "P(a=x,b=[p,q])"
    if scenario == "big":
        return Big(n=30000), "debug", None
    if scenario == "bigslow":
        return Big(n=30000, sleep=0.3), "debug", None
    if scenario == "bigslow_cf":
        return Big(n=30000, sleep=0.3), "cf", None
    if scenario == "failing":
        return F(a="x", tag="Q", fail=True), "debug", None
    if scenario == "shell":
        from pydra.compose import shell
        tool = os.path.join(os.path.dirname(__file__), "fakes", "c12_tool")
        Sh = shell.define(f"{tool} <arg:str>")
        return Sh(arg="k7"), "debug", "payload-k7"
    spec = {"nodes": [{"name": "A", "inputs": {"a": ["lit", "x"]}},
                      {"name": "B", "inputs": {"a": ["node", "A"]},
                       "split": {"form": "b", "vals": {"b": ["lit", ["b0", "b1"]]}}},
                      {"name": "C", "inputs": {"a": ["node", "B"]}}], "out": ["C"]}
    exp = ["C(a=B(a=A(a=x),b=b0))", "C(a=B(a=A(a=x),b=b1))"]
    if scenario == "wf_debug":
        return GenWF(spec=json.dumps(spec, sort_keys=True)), "debug", exp
    if scenario in ("wf_cf_parent", "wf_cf_child"):
        return GenWF(spec=json.dumps(spec, sort_keys=True)), "cf", exp
    raise SystemExit(f"unknown scenario {scenario}")


def _defs():
    from pydra.compose import python

    @python.define(outputs=["out", "digest"])
    def Big(n: int, sleep: float = 0.0):
        import hashlib
        import time as _t
        from vp import evlog
        evlog.emit("start", node="Big", term=f"Big({n})")
        _t.sleep(sleep)
        data = [(i * 2654435761) % 1000003 for i in range(n)]
        evlog.emit("end", node="Big", term=f"Big({n})")
        return data, hashlib.sha1(repr(data).encode()).hexdigest()
    return Big


def stale_lock_report(cache_root):
    rep = []
    for f in os.listdir(cache_root):
        if f.endswith(".lock"):
            p = os.path.join(cache_root, f)
            try:
                txt = open(p).read()
                pid = int(txt.split()[0]) if txt.split() else None
            except Exception:  # noqa: BLE001
                txt, pid = None, None
            alive = None
            if pid:
                try:
                    os.kill(pid, 0)
                    alive = True
                except ProcessLookupError:
                    alive = False
                except PermissionError:
                    alive = True
            rep.append({"lock": f, "holder_pid": pid, "holder_alive": alive})
    return rep


def main():
    scenario, cache_root, log, outp = sys.argv[1:5]
    rerun = len(sys.argv) > 5 and sys.argv[5] == "rerun"
    from vp import env
    env.bind(os.path.dirname(outp))
    os.environ["VP_LOG"] = log
    os.environ.setdefault("VP_C12_COUNT", os.path.join(os.path.dirname(log), "c12_count"))
    from vp import failpoints
    global Big
    Big = _defs()
    task, worker, expected = build(scenario)
    from pydra.engine.submitter import Submitter
    from vp import evlog
    failpoints.install_from_env()
    res = {"scenario": scenario, "pid": os.getpid()}
    done = threading.Event()

    # no-hang monitor, decided on logical steps: count failed acquisition attempts per lock file (in this
    # process and, through fork, in pool children; reported via the event log).  A lock whose holder is
    # dead and on which >= VP_LASSO_ATTEMPTS attempts have failed is a lasso.
    import filelock
    orig_acquire = filelock.SoftFileLock._acquire
    fails = {}

    def _acquire(self):
        orig_acquire(self)
        if not self.is_locked:
            n = fails[self.lock_file] = fails.get(self.lock_file, 0) + 1
            if n % 20 == 0:
                evlog.emit("lockwait", lock=os.path.basename(self.lock_file), attempts=n)
    filelock.SoftFileLock._acquire = _acquire
    need = int(os.environ.get("VP_LASSO_ATTEMPTS", "200"))
    # the asyncio lock wrapper (PydraFileLock) waits with `asyncio.sleep` between attempts: count those
    # waits too, so a waiter that never even attempts to take a dead holder's lock is seen as well
    import asyncio as _asyncio
    import pydra.engine.job as _jobmod

    class _AsyncioProxy:
        def __getattr__(self, name):
            return getattr(_asyncio, name)

        async def sleep(self, delay, *a, **k):
            n = fails["<async-wait>"] = fails.get("<async-wait>", 0) + 1
            evlog.emit("lockwait", lock="<async-wait>", attempts=n)
            return await _asyncio.sleep(delay, *a, **k)
    _jobmod.asyncio = _AsyncioProxy()
    need_async = int(os.environ.get("VP_LASSO_ASYNC_WAITS", "9"))
    skip = len(evlog.read(log))     # events of earlier processes (the victim) do not count

    def lasso_watch():
        t0 = time.time()
        while not done.wait(1.0):
            dead = {r["lock"]: r for r in stale_lock_report(cache_root) if r["holder_alive"] is False}
            if not dead:
                continue
            att = {}
            for e in evlog.read(log)[skip:]:
                if e.get("ev") == "lockwait" and e.get("pid") != 0:
                    att[(e["lock"], e["pid"])] = max(att.get((e["lock"], e["pid"]), 0), e["attempts"])
            for (lk, pid), n in att.items():
                if lk == "<async-wait>" and n >= need_async:
                    lk = sorted(dead)[0]
                    n = f"{n} async waits"
                elif lk == "<async-wait>":
                    continue
                if lk in dead and (isinstance(n, str) or n >= need):
                    res["lasso"] = {"lock": dead[lk], "failed_attempts": n, "waiting_pid": pid,
                                    "waited_s": round(time.time() - t0, 1)}
                    with open(outp, "w") as f:
                        json.dump(res, f)
                    os._exit(99)
    threading.Thread(target=lasso_watch, daemon=True).start()
    try:
        kw = {"n_procs": 1} if worker == "cf" else {}
        with Submitter(worker=worker, cache_root=cache_root, **kw) as sub:
            r = sub(task, raise_errors=True, rerun=rerun)
        o = r.outputs
        if scenario == "shell":
            res["out"] = o.stdout.strip()
        elif scenario.startswith("big"):
            import hashlib
            res["out"] = {"n": len(o.out), "digest_ok": hashlib.sha1(repr(list(o.out)).encode()).hexdigest() == o.digest}
        else:
            res["out"] = json.loads(env.jdump(o.out))
        res["errored"] = bool(r.errored)
    except BaseException as e:  # noqa: BLE001
        res["err"] = f"{type(e).__name__}: {str(e)[:300]}"
    done.set()
    res["fp_events"] = failpoints.count()
    if failpoints.STATE.get("cfg", {}).get("mode") == "record":
        res["trace"] = failpoints.trace()
    res["fired"] = failpoints.STATE.get("fired")
    res["cwd"] = os.getcwd()
    with open(outp, "w") as f:
        json.dump(res, f)


if __name__ == "__main__":
    main()
