"""Generic interpreted workflow: one module-level constructor `GenWF(spec=<json str>)` builds the
graph described by the spec from term-valued nodes (vp.terms.F / L).  The spec is an ordinary
(hashed) input, so there are no closures over case data and pydra's construction cache keys on
the spec itself.

spec = {"nodes": [node, ...], "out": [node names whose .out is a workflow output]}
node = {"name": "N1", "kind": "F"|"L"|"W",
        "inputs": {field: ["lit", value] | ["node", upstream] | ["wfin", name]},
        "split": None | {"form": tree, "vals": {field: ["lit", [tokens]] | ["node", upstream] | ["wfin", name]}},
        "comb": [own field names or "Nk.f" references to upstream axes],
        "n": int (L only), "fail": bool, "gate": bool,
        "sub": spec (W only: nested workflow; its inputs come from node["inputs"] as wf inputs)}
tree = "f" | {"o": [...]} | {"i": [...]}   ("_Nk" leaves refer to a whole upstream state)
"""
import json

from pydra.compose import workflow

from vp.terms import F, FT, L


def to_py(tree):
    if isinstance(tree, str):
        return tree
    if "o" in tree:
        return [to_py(x) for x in tree["o"]]
    return tuple(to_py(x) for x in tree["i"])


def _resolve(ref, built, wfin):
    k = ref[0]
    if k == "lit":
        return ref[1]
    if k == "node":
        return built[ref[1]].out
    if k == "wfin":
        return wfin[ref[1]]
    raise ValueError(ref)


def build(spec, wfin):
    built = {}
    for nd in spec["nodes"]:
        kw = {f: _resolve(r, built, wfin) for f, r in nd.get("inputs", {}).items()}
        kind = nd.get("kind", "F")
        if kind == "F":
            task = F(tag=nd.get("tag", nd["name"]), fail=bool(nd.get("fail")), gate=bool(nd.get("gate")),
                     failtok=nd.get("failtok", ""), sleep=nd.get("sleep", 0.0), **kw)
        elif kind == "FT":
            task = FT(tag=nd.get("tag", nd["name"]), **kw)
        elif kind == "L":
            task = L(tag=nd["name"], n=nd.get("n", 2), **kw)
        else:
            task = SubWF(spec=json.dumps(nd["sub"], sort_keys=True), **kw)
        sp = nd.get("split")
        if sp:
            vals = {f: _resolve(r, built, wfin) for f, r in sp["vals"].items()}
            task = task.split(to_py(sp["form"]), **vals)
        if nd.get("comb"):
            task = task.combine(nd["comb"])
        built[nd["name"]] = workflow.add(task, name=nd["name"])
    # back-assignments: re-point an already added node's input at a (possibly later) node's output
    for tgt, field, src in spec.get("back", []):
        setattr(workflow.this()[tgt].inputs, field, built[src].out)
    return built


@workflow.define(outputs=["out"])
def GenWF(spec: str, x=None, y=None):
    sp = json.loads(spec)
    built = build(sp, {"x": x, "y": y})
    return built[sp["out"][0]].out


@workflow.define(outputs=["out", "out2"])
def GenWF2(spec: str, x=None, y=None):
    sp = json.loads(spec)
    built = build(sp, {"x": x, "y": y})
    return built[sp["out"][0]].out, built[sp["out"][1]].out


@workflow.define(outputs=["out"])
def SubWF(spec: str, a=None, b=None):
    sp = json.loads(spec)
    built = build(sp, {"a": a, "b": b})
    return built[sp["out"][0]].out
