"""Shared generator / builder / runner for the shell-argv properties C22, C23, C24.

A case is pure JSON: {"fields": [field specs, see vp.ref_argv], "values": {name: json},
"append_args": [str], "exe_extra": [str]}.  File values are {"file": "<basename>"} and are
materialised as real files in the case's scratch dir.  The task class is made by a
`shell.define(executable, inputs=[shell.arg(...) ...])` call whose whole field metadata comes
from the case spec (fresh class per case, unique class name).  The task is run end to end
(`task(cache_root=fresh, worker="debug")`) with executable `vp/fakes/dumpargv`; two observations
are taken: the argv handed to `pydra.environments.base.execute` (in-process wrapper that then calls
the real function) and the argv the really executed process printed.
"""
from __future__ import annotations

import json
import os
import shlex
from pathlib import Path

from vp import ref_argv as R
from vp.ref_argv import as_text

NPROC = int(os.environ.get("VP_NPROC", "16"))
# development knob only (mutation runs on a loaded machine): VP_QUICK_N=<cases> shrinks the quick tier
QUICK_N = {p: int(os.environ["VP_QUICK_N"]) for p in ("C22", "C23", "C24")} if os.environ.get("VP_QUICK_N") else {}
DUMPARGV = str(Path(__file__).resolve().parent / "fakes" / "dumpargv")

ALPHABET = ["a", "b", "Z", "7", " ", "\t", "'", '"', "\\", "$", "*", ";", "é", "-", "x"]
MILD = ["a", "b", "Z", "7", "$", "*", ";", "é", "-", "x"]
SAFE = set("abcdefghijklmnopqrstuvwxyzABCDEFGHIJKLMNOPQRSTUVWXYZ0123456789_@%+=:,./-")


# ------------------------------------------------------------------ generation
def hostile(rng, maxlen=6, path=False):
    if rng.random() < 0.12:
        # quoted shapes: a word wrapped in (nested / escaped) quotes, as users paste them
        inner = "".join(rng.choice(MILD[:4] + [" "]) for _ in range(rng.randint(1, 3)))
        return rng.choice(["'{}'", '"{}"', "\"'{}'\"", "'\"{}\"'", "\\'{}\\'"]).format(inner)
    n = rng.randint(1, maxlen)
    # a third of the strings use only characters that no tokeniser treats specially but a shell would
    alpha = MILD if rng.random() < 0.35 else ALPHABET
    s = "".join(rng.choice(alpha) for _ in range(n))
    if path and s in (".", ".."):
        s = "p" + s
    return s


def _scalar_value(rng, f, i, words):
    k = f["kind"]
    if k == "str":
        return words(f["name"])
    if k == "int":
        return rng.choice([0, 0, 1, 7, 42, 10 * (i + 1) + 3])
    if k == "float":
        return rng.choice([0.0, 0.0, 1.5, 2.0, 0.25 + i])
    if k == "file":
        return {"file": words(f["name"]) + ".dat"}
    raise AssertionError(k)


def gen_fields(rng, nmax=6, positions=True, kinds=None):
    kinds = kinds or ["bool", "str", "str", "int", "float", "file", "list", "list", "multi"]
    n = rng.randint(1, nmax)
    fields = []
    used_pos = set()
    for i in range(n):
        name = "abcdefgh"[i] + rng.choice(["", "x", "_in"])
        kind = rng.choice(kinds)
        f = {"name": name, "kind": kind, "optional": False, "position": None, "sep": None}
        if kind == "bool":
            f["argstr"] = rng.choice(["-", "--"]) + name
            f["default"] = False
        else:
            style = rng.choice(["plain", "plain", "bare", "templ", "templ2"])
            if style == "plain":
                f["argstr"] = rng.choice(["-", "--"]) + name
            elif style == "bare":
                f["argstr"] = ""
            elif style == "templ":
                f["argstr"] = f"--{name}={{{name}}}"
            else:
                f["argstr"] = f"-{name} {{{name}}}"
            if kind in ("list", "multi"):
                f["elem"] = rng.choice(["str", "str", "int", "file"])
            if kind == "list":
                if rng.random() < 0.45:
                    f["argstr"] += "..."
                    f["sep"] = rng.choice([None, None, None, ","])
                else:
                    f["sep"] = rng.choice([None, " ", ",", ":"])
            f["optional"] = rng.random() < 0.5
            if not f["optional"] and kind in ("str", "int", "float") and rng.random() < 0.2:
                f["default"] = _scalar_value(rng, f, i, lambda nm: f"d{nm}")
        if positions and rng.random() < 0.45:
            p = rng.choice([1, 2, 3, 4, 5, 6, 7, 8, -1, -2, -3, -4])
            if p not in used_pos:
                used_pos.add(p)
                f["position"] = p
        fields.append(f)
    # occasionally let a templated scalar field also mention another mandatory str field
    strs = [g for g in fields if g["kind"] == "str" and not g["optional"]]
    for f in fields:
        if strs and "{" in f["argstr"] and f["kind"] in ("str", "int", "float") and rng.random() < 0.15:
            o = rng.choice(strs)
            if o is not f:
                f["argstr"] = f"--{f['name']}={{{f['name']}}}:{{{o['name']}}}"
    return fields


def gen_values(rng, fields, word=None, set_prob=0.7):
    cnt = [0]

    def simple(nm):
        cnt[0] += 1
        return f"{nm}v{cnt[0]}"
    words = word or simple
    values = {}
    for i, f in enumerate(fields):
        k = f["kind"]
        must = not f["optional"] and "default" not in f
        if not must and rng.random() > set_prob:
            if f["optional"] and rng.random() < 0.3:
                values[f["name"]] = None
            continue
        if k == "bool":
            values[f["name"]] = rng.random() < 0.6
        elif k in ("list", "multi"):
            ef = {"kind": f["elem"], "name": f["name"]}
            lo = 0 if (k == "multi" and not must) else 1
            n = rng.randint(lo, 3)
            if k == "list" and rng.random() < 0.04:
                n = 0
            values[f["name"]] = [_scalar_value(rng, ef, i, words) for _ in range(n)]
        else:
            values[f["name"]] = _scalar_value(rng, f, i, words)
    return values


def gen_case(rng, profile):
    """profile: 'c22' simple words + positions; 'c23' hostile strings, gap-free ordering, no falsy
    numbers; 'c24' c22 definitions x hostile strings, plus empty-string arguments."""
    if profile == "c22":
        fields = gen_fields(rng)
        values = gen_values(rng, fields)
        app = [f"z{j}" for j in range(rng.choice([0, 0, 1, 2]))]
        return {"fields": fields, "values": values, "append_args": app, "exe_extra": []}
    host = lambda nm: hostile(rng, path=True)  # noqa: E731
    if profile == "c23":
        fields = gen_fields(rng, nmax=4, positions=False, kinds=["str", "str", "file", "list", "multi"])
        for f in fields:
            if f.get("elem") == "int":
                f["elem"] = "str"
            f.pop("default", None)
            if "{" in f["argstr"] and ":" in f["argstr"]:
                f["argstr"] = f"--{f['name']}={{{f['name']}}}"
        values = gen_values(rng, fields, word=host, set_prob=0.85)
        for f in fields:       # no empty plain lists here (MAY class of C22)
            if f["kind"] == "list" and values.get(f["name"]) == []:
                values[f["name"]] = [{"file": host("") + ".dat"} if f["elem"] == "file" else host("")]
        app = [hostile(rng) for _ in range(rng.choice([0, 1, 2]))]
        return {"fields": fields, "values": values, "append_args": app, "exe_extra": []}
    if profile == "c24":
        fields = gen_fields(rng, nmax=4)
        mixed = lambda nm: host(nm) if rng.random() < 0.6 else f"{nm}w"  # noqa: E731
        values = gen_values(rng, fields, word=mixed)
        app = []
        for _ in range(rng.choice([0, 1, 1, 2, 3])):
            app.append("" if rng.random() < 0.15 else (hostile(rng) if rng.random() < 0.8 else "plain"))
        extra = [rng.choice(["sub", "run it"])] if rng.random() < 0.1 else []
        if rng.random() < 0.2:
            # line breaks (an unstripped readline() value, a pasted block): trailing, leading or in the middle
            nl = lambda w: rng.choice([w + "\n", "\n" + w, w + "\n" + w, w + "\r\n"])  # noqa: E731
            strs = [k for k, v in values.items() if isinstance(v, str) and v and not os.path.isabs(v)]
            if strs and rng.random() < 0.6:
                k = rng.choice(strs)
                values[k] = nl(values[k])
            else:
                app.append(nl(rng.choice(["para", "x7", "a.b"])))
        return {"fields": fields, "values": values, "append_args": app, "exe_extra": extra}
    raise AssertionError(profile)


# ------------------------------------------------------------------ building / running
def materialise(case, d: Path):
    """real files for file values; returns values with absolute path strings."""
    fdir = d / "in"
    fdir.mkdir(parents=True, exist_ok=True)
    n = [0]

    def mat(v):
        if isinstance(v, dict) and "file" in v:
            n[0] += 1
            sub = fdir / f"f{n[0]}"
            sub.mkdir(exist_ok=True)
            p = sub / v["file"]
            p.write_text("x")
            return str(p)
        if isinstance(v, list):
            return [mat(e) for e in v]
        return v
    out = {k: mat(v) for k, v in case["values"].items()}
    fields = []
    for f in case["fields"]:
        f = dict(f)
        if "default" in f:
            f["default"] = mat(f["default"])
        fields.append(f)
    return fields, out


def py_type(f):
    import typing as ty  # noqa: F401
    from fileformats.generic import File
    from pydra.utils.typing import MultiInputObj
    base = {"bool": bool, "str": str, "int": int, "float": float, "file": File}
    k = f["kind"]
    if k == "list":
        t = list[base[f["elem"]]]
    elif k == "multi":
        t = MultiInputObj[base[f["elem"]]]
    else:
        t = base[k]
    return (t | None) if f["optional"] else t


def build_class(fields, name, exe):
    from pydra.compose import shell
    args = []
    for f in fields:
        kw = {"name": f["name"], "type": py_type(f), "argstr": f["argstr"]}
        if f.get("position") is not None:
            kw["position"] = f["position"]
        if f.get("sep") is not None:
            kw["sep"] = f["sep"]
        if "default" in f:
            kw["default"] = f["default"]
        elif f["optional"]:
            kw["default"] = None
        args.append(shell.arg(**kw))
    return shell.define(exe if len(exe) > 1 else exe[0], inputs=args, name=name)


class Capture:
    """wrapper around pydra.environments.base.execute (the function every environment calls)."""

    def __init__(self):
        self.calls = []

    def __enter__(self):
        import pydra.environments.base as B
        self.B, self.orig = B, B.execute
        cap = self

        def execute(cmd, *a, **k):
            cap.calls.append([str(c) if not isinstance(c, str) else c for c in cmd])
            return cap.orig(cmd, *a, **k)
        B.execute = execute
        return self

    def __exit__(self, *a):
        self.B.execute = self.orig


def observe(case, d: Path, name, want_cmdline=False):
    """-> obs dict {define_error|run_error, captured, received, cmdline, cmdline_error, ref}"""
    exe = [DUMPARGV] + list(case.get("exe_extra", []))
    fields, values = materialise(case, d)
    ref = R.ref_argv(exe, fields, values, case["append_args"])
    obs = {"ref": ref, "captured": None, "received": None}
    try:
        cls = build_class(fields, name, exe)
    except Exception as e:  # definition rejected
        obs["define_error"] = f"{type(e).__name__}: {e}"[:300]
        return obs
    try:
        task = cls(append_args=list(case["append_args"]), **values)
    except Exception as e:
        obs["define_error"] = f"instantiate {type(e).__name__}: {e}"[:300]
        return obs
    if want_cmdline:
        try:
            obs["cmdline"] = task.cmdline
        except Exception as e:
            obs["cmdline_error"] = f"{type(e).__name__}: {e}"[:300]
    with Capture() as cap:
        try:
            out = task(cache_root=d / "cache", worker="debug")
            stdout = out.stdout
        except Exception as e:
            stdout = None
            notes = " | ".join(getattr(e, "__notes__", []) or [])
            obs["run_error"] = (f"{type(e).__name__}: {e} {notes}")[:600]
    if cap.calls:
        obs["captured"] = cap.calls[-1]
        obs["n_execute_calls"] = len(cap.calls)
    if stdout is not None:
        try:
            obs["received"] = json.loads(stdout.strip().splitlines()[-1])
        except Exception as e:
            obs["run_error"] = f"unparsable stdout {stdout!r:.200}: {e}"
    return obs


# ------------------------------------------------------------------ mechanism classifiers
def parse_units(middle, units, limit=200):
    """all ways (up to `limit`) to read `middle` as a concatenation of distinct reference units
    (each at most once); each parse is a list of unit indices."""
    out = []

    def rec(pos, used, acc):
        if len(out) >= limit:
            return
        if pos == len(middle):
            out.append(list(acc))
            return
        for i, u in enumerate(units):
            if i in used:
                continue
            a = u["args"]
            if a and middle[pos:pos + len(a)] == a:
                acc.append(i)
                rec(pos + len(a), used | {i}, acc)
                acc.pop()
    rec(0, frozenset(), [])
    return out


def classify_c22(exe, ref, observed, append_args):
    """map a C22 witness to a mechanism:
    falsy-value-dropped          the only missing contributions are numeric values equal to 0 / 0.0
    implicit-position-fills-gap  the observed order differs from the documented one only by
                                 unpositioned fields preceding explicitly non-negative-positioned ones
    """
    units = [dict(u, cls=c["cls"], name=c["name"]) for c in ref["chunks"] for u in c["units"]]
    n_app = len(append_args)
    if observed[:len(exe)] != list(exe):
        return None, {}
    if n_app and observed[-n_app:] != list(append_args):
        return None, {}
    middle = observed[len(exe):len(observed) - n_app]
    best = (None, {})
    for order in parse_units(middle, units):
        mech, info = _classify_order(units, order)
        if mech:
            return mech, info
        best = (None, info)
    return best


def _classify_order(units, order):
    dropped = [i for i, u in enumerate(units) if u["args"] and i not in order]
    info = {"dropped": [[units[i]["name"], units[i]["value"]] for i in dropped],
            "order": [units[i]["name"] for i in order]}
    for i in dropped:
        v = units[i]["value"]
        if not (type(v) in (int, float) and v == 0):
            return None, info
    if order != sorted(order):
        # every inversion must be (unpositioned before explicit non-negative)
        for x in range(len(order)):
            for y in range(x + 1, len(order)):
                if order[x] > order[y]:   # unit order[x] should come after order[y]
                    first, second = units[order[x]], units[order[y]]
                    if not (first["cls"] == "none" and second["cls"] == "pos"):
                        return None, info
        return "implicit-position-fills-gap", info
    if dropped:
        return "falsy-value-dropped", info
    return None, info


def strip_outer_quotes(a):
    if len(a) >= 2 and a[0] == a[-1] and a[0] in "'\"":
        return a[1:-1]
    return a


def _retok_str(text):
    try:
        return [strip_outer_quotes(t) for t in shlex.split(text, posix=True)]
    except ValueError:
        return "error"


def _retok(args):
    return _retok_str(" ".join(args))


def retokenised(exe, ref, append_args, observed=None):
    """Is `observed` what the argv would be if the string built for every field (or for every
    element of a per-element field) were split again with shell rules (the harness's own shlex
    call)?  Returns (matches: bool, can_fail: bool, example argv)."""
    cands = []
    can_fail = False
    for c in ref["chunks"]:
        if not c["args"]:
            continue
        templ = c.get("templated")
        unit_strs = [" ".join(u["args"]) for u in c["units"]]
        if c.get("ellipsis"):
            # one string for the whole list: per-element " <argstr> <value>" pieces joined by a blank
            if templ:
                whole_str = " ".join(" " + p.strip() for p in unit_strs)
            else:
                base = c["argstr"][:-3]
                whole_str = " ".join(f" {base} {as_text(u['value'])}" for u in c["units"])
        else:
            whole_str = " ".join(c["args"])

        def per_unit(strip):
            out = []
            for p in unit_strs:
                t = _retok_str(p.strip() if strip else p)
                if t == "error":
                    return "error"
                out += t
            return out
        # (pydra strips the formatted string of a templated argstr before splitting it)
        alts = [_retok_str(whole_str), per_unit(False)]
        if templ:
            alts += [_retok_str(whole_str.strip()), per_unit(True)]
        opts = []
        for o in alts:
            if o == "error":
                can_fail = True
            elif o not in opts:
                opts.append(o)
        cands.append(opts)
    example = list(exe)
    for o in cands:
        example += o[0] if o else ["<error>"]
    example += list(append_args)
    if observed is None:
        return False, can_fail, example
    n_app = len(append_args)
    if observed[:len(exe)] != list(exe) or (n_app and observed[-n_app:] != list(append_args)):
        return False, can_fail, example
    middle = observed[len(exe):len(observed) - n_app]

    def rec(k, pos):
        if k == len(cands):
            return pos == len(middle)
        return any(middle[pos:pos + len(o)] == o and rec(k + 1, pos + len(o)) for o in cands[k])
    return rec(0, 0), can_fail, example


def needs_more_than_space_quoting(arg, shell=False):
    """an argument that cannot round-trip when only space-containing args are wrapped in '...'"""
    if arg == "":
        return True
    bad = "'\"\\\t\n" + ("$*;&|<>()`~#?![]{}" if shell else "")
    return any(ch in bad for ch in arg)


def sh_split(cmdline, cwd):
    """argv a real POSIX shell gives to the command spelled by `cmdline` (run in an empty dir)."""
    import subprocess
    p = subprocess.run(["/bin/sh", "-c", cmdline], cwd=cwd, capture_output=True, text=True, timeout=90, stdin=subprocess.DEVNULL,
                       env={"PATH": "/nonexistent", "LC_ALL": "C.UTF-8"})
    try:
        return json.loads(p.stdout.strip().splitlines()[-1])
    except Exception:
        return {"rc": p.returncode, "stdout": p.stdout[-200:], "stderr": p.stderr[-200:]}


def clean_case_dir(d: Path):
    import shutil
    shutil.rmtree(d, ignore_errors=True)


def unique_name(prefix, case):
    from vp import env
    return f"{prefix}_{env.sig_of(case)}_{os.getpid()}"
