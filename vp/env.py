"""Tree binding, scratch dirs, check context, parallel case runner, evidence, known findings.

Every harness process (parent and case workers) calls bind() first: pydra is imported
from /repo (never from the stale copy in site-packages), telemetry is off and the
persistent hash cache lives in the scratch directory.
"""
from __future__ import annotations

import hashlib
import json
import os
import random
import shutil
import subprocess
import sys
import tempfile
import time
import traceback
from pathlib import Path

VERIF = Path(__file__).resolve().parent.parent
REPO = Path(os.environ.get("VERIF_REPO", "/repo"))
PY = "/venv/bin/python"
LEVELS = ("exploration", "fault_enumeration", "model_checking", "proof",
          "translation_validation", "other")


def bind(scratch: str | None = None):
    """Make `import pydra` resolve to REPO and set the environment children inherit."""
    rp = str(REPO)
    if rp in sys.path:
        sys.path.remove(rp)
    sys.path.insert(0, rp)
    vs = str(VERIF)
    if vs not in sys.path:
        sys.path.insert(1, vs)
    deps = str(VERIF / ".deps")
    if deps not in sys.path:
        sys.path.append(deps)  # last: /venv's own packages win
    os.environ["PYTHONPATH"] = os.pathsep.join([rp, vs])
    os.environ["NO_ET"] = "true"
    os.environ.setdefault("PYTHONHASHSEED", "0")
    os.environ.setdefault("NIPYPE_PYDRA_VERIF", "1")
    if scratch:
        os.environ["PYDRA_HASH_CACHE"] = str(Path(scratch) / "hashcache")
        os.environ["HOME"] = str(scratch)  # pydra default cache root lives under ~
    os.environ.setdefault("PYDRA_HASH_CACHE", tempfile.gettempdir() + "/verif-hashcache")


def assert_bound():
    import pydra.engine.job as J
    f = os.path.realpath(J.__file__)
    if not f.startswith(os.path.realpath(str(REPO)) + os.sep):
        raise RuntimeError(f"pydra imported from {f}, not from {REPO}")


def mk_scratch(prefix="verif-") -> Path:
    base = "/dev/shm" if os.path.isdir("/dev/shm") and os.access("/dev/shm", os.W_OK) else None
    return Path(tempfile.mkdtemp(prefix=prefix, dir=base))


def tree_id() -> dict:
    def git(*a):
        try:
            return subprocess.run(["git", "-C", str(REPO), *a], capture_output=True,
                                  text=True, timeout=30).stdout
        except Exception:
            return ""
    diff = git("diff", "HEAD")
    return {"repo_head": git("rev-parse", "HEAD").strip(),
            "repo_diff_sha": hashlib.sha1(diff.encode()).hexdigest()[:12] if diff else "clean"}


def case_rng(seed, prop, case) -> random.Random:
    return random.Random(f"{seed}:{prop}:{case}")


def jdefault(o):
    if isinstance(o, (set, frozenset)):
        return sorted(map(repr, o))
    if isinstance(o, Path):
        return str(o)
    if isinstance(o, bytes):
        return o.decode("latin1")
    if isinstance(o, tuple):
        return list(o)
    return repr(o)


def jdump(o, **k):
    return json.dumps(o, default=jdefault, **k)


def sig_of(o) -> str:
    return hashlib.sha1(jdump(o, sort_keys=True).encode()).hexdigest()[:16]


# --------------------------------------------------------------------------------------
# known findings
# --------------------------------------------------------------------------------------

def load_findings(prop: str) -> dict:
    p = VERIF / "known_findings.json"
    out = {}
    files = [p] if p.exists() else []      # the committed file is the only source; nothing is added at run time
    for f in files:
        for e in json.loads(f.read_text())["findings"]:
            if e["property"] == prop:
                out[e["id"]] = e
    return out


# --------------------------------------------------------------------------------------
# check context
# --------------------------------------------------------------------------------------

class Ctx:
    """Accumulates verdicts for one check run and writes evidence/<id>.json.

    Verdicts are three-valued.  A case result is a dict
      {"verdict": "held"|"violated"|"inconclusive"|"may", "sig": str, "nontrivial": bool,
       "case": <json>, "obs": <json>, "mech": str|None, "witness": <json>}
    `mech` names the known-finding mechanism the witness was classified into by the check's
    own deterministic classifier (None = unclassified => new violation).
    """

    def __init__(self, prop, tier, seed, level="exploration"):
        self.prop, self.tier, self.seed, self.level = prop, tier, seed, level
        self.t0 = time.time()
        self.scratch = mk_scratch(f"verif-{prop}-")
        bind(str(self.scratch))
        self.findings = load_findings(prop)
        self.evaluations = 0
        self.sigs = set()
        self.samples = []
        self.counters = {}
        self.violations = []      # unclassified / not-open
        self.known = {}           # mech -> count
        self.known_example = {}
        self.inconclusive = []
        self.may = 0
        self.rule = ""
        self.assumptions = []
        self.extra = {}
        self.exhaustive = None
        self.min_nontrivial = 2
        self.max_samples = 6

    # -- bookkeeping ------------------------------------------------------------------
    def count(self, key, n=1):
        self.counters[key] = self.counters.get(key, 0) + n

    def distinct(self, key, value):
        s = self.extra.setdefault("_distinct_" + key, set())
        s.add(value if isinstance(value, (str, int, tuple)) else sig_of(value))

    def rng(self, case="") -> random.Random:
        return case_rng(self.seed, self.prop, case)

    def record_all(self, results):
        for r in results:
            if isinstance(r, dict) and "multi" in r:
                for x in r["multi"]:
                    self.record(x)
            else:
                self.record(r)

    def record(self, r: dict):
        self.evaluations += 1
        v = r.get("verdict", "held")
        for k, n in (r.get("counters") or {}).items():
            self.count(k, n)
        for k, vals in (r.get("distinct") or {}).items():
            for x in vals:
                self.distinct(k, x)
        if v == "inconclusive":
            self.inconclusive.append({"case": r.get("case"), "why": r.get("why")})
            return
        if r.get("nontrivial", True) and r.get("sig"):
            self.sigs.add(r["sig"])
        if v == "may":
            self.may += 1
        if v == "violated":
            mech = r.get("mech")
            f = self.findings.get(mech) if mech else None
            if f is not None and f.get("status") == "open":
                self.known[mech] = self.known.get(mech, 0) + 1
                self.known_example.setdefault(mech, {"case": r.get("case"), "witness": r.get("witness")})
            else:
                self.violations.append(r)
        if (len(self.samples) < self.max_samples and r.get("case") is not None and v != "violated"
                and (not self.samples or r.get("nontrivial", True))):
            self.samples.append({"case": r.get("case"), "observed": r.get("obs"), "verdict": v})

    # -- parallel execution of cases in fresh worker subprocesses ---------------------
    def pmap(self, target: str, cases: list, nproc: int = 16, timeout: float = 600,
             env: dict | None = None, chunk: int | None = None) -> list:
        """Run `module:function` on every case in subprocess workers (never mp.Pool).

        Returns one result dict per case (order preserved).  Cases of a worker that died
        or timed out come back as verdict=inconclusive."""
        if not cases:
            return []
        nproc = max(1, min(nproc, len(cases)))
        slices = [[] for _ in range(nproc)]
        for i, c in enumerate(cases):
            slices[i % nproc].append((i, c))
        procs = []
        e = dict(os.environ)
        e.update(env or {})
        for w, sl in enumerate(slices):
            inp = self.scratch / f"w{w}-{len(os.listdir(self.scratch))}.in.json"
            outp = Path(str(inp)[:-8] + ".out.jsonl")
            inp.write_text(jdump(sl))
            wscr = self.scratch / f"ws{w}-{os.path.basename(str(inp))[:-8]}"
            wscr.mkdir()
            p = subprocess.Popen([PY, "-m", "vp.worker", target, str(inp), str(outp), str(wscr),
                                  str(self.seed), self.prop, self.tier],
                                 cwd=str(VERIF), env=e, stdout=subprocess.DEVNULL,
                                 stderr=open(str(outp) + ".err", "wb"), start_new_session=True)
            procs.append((p, sl, outp, wscr))
        deadline = time.time() + timeout
        results = [None] * len(cases)
        for p, sl, outp, wscr in procs:
            try:
                p.wait(timeout=max(1, deadline - time.time()))
            except subprocess.TimeoutExpired:
                try:   # the worker's whole process group (pool children included)
                    os.killpg(p.pid, 9)
                except OSError:
                    p.kill()
                p.wait()
                self.count("worker_watchdog_fired")
            if outp.exists():
                for line in outp.read_text().splitlines():
                    try:
                        i, r = json.loads(line)
                        results[i] = r
                    except Exception:
                        pass
            err = ""
            try:
                err = Path(str(outp) + ".err").read_text()[-2000:]
            except Exception:
                pass
            try:   # stragglers (e.g. pool children of a finished worker) must not outlive the check
                os.killpg(p.pid, 9)
            except OSError:
                pass
            for i, c in sl:
                if results[i] is None:
                    results[i] = {"verdict": "inconclusive", "case": c,
                                  "why": f"worker rc={p.returncode} {err[-600:]}"}
            shutil.rmtree(wscr, ignore_errors=True)
        return results

    # -- finish -------------------------------------------------------------------------
    def finish(self) -> int:
        wall = time.time() - self.t0
        distinct = {k[len("_distinct_"):]: len(v) for k, v in self.extra.items()
                    if k.startswith("_distinct_")}
        extra = {k: v for k, v in self.extra.items() if not k.startswith("_distinct_")}
        replay_paths = []
        (VERIF / "replays").mkdir(exist_ok=True)
        for r in self.violations[:20]:
            rp = VERIF / "replays" / f"{self.prop}-{sig_of([r.get('case'), r.get('witness')])}.json"
            rp.write_text(jdump({"property": self.prop, "seed": self.seed, "tier": self.tier,
                                 "case": r.get("case"), "witness": r.get("witness"),
                                 "mech": r.get("mech"), "observed": r.get("obs")}, indent=1))
            replay_paths.append(rp)
        samples = list(self.samples)
        for m, ex in self.known_example.items():
            samples.append({"known_finding": m, **ex})
        for r in self.violations[:3]:
            samples.append({"VIOLATION": True, "case": r.get("case"), "witness": r.get("witness")})
        cov = {
            "evaluations": self.evaluations,
            "distinct_nontrivial": len(self.sigs),
            "rule": self.rule,
            "samples": samples[:12],
            "monitor_counters": self.counters,
            "distinct_observed": distinct,
            "known_findings_hit": self.known,
            "may_class_cases": self.may,
            "inconclusive_cases": len(self.inconclusive),
            "inconclusive_examples": self.inconclusive[:3],
            "tree": tree_id(),
            **extra,
        }
        if self.exhaustive is not None:
            cov["exhaustive"] = bool(self.exhaustive)
        ev = {"property_id": self.prop, "tier": self.tier, "seed": self.seed, "level": self.level,
              "coverage": cov, "assumptions": self.assumptions, "wall_s": round(wall, 2),
              "violations": len(self.violations)}
        # evidence/ describes /repo itself: a development run against another tree (VERIF_REPO=<scratch worktree>, used by
        # tools/try_seeded.sh) must not overwrite it
        edir = VERIF / "evidence" if str(REPO) == "/repo" else Path(tempfile.gettempdir()) / "verif-evidence-other-tree"
        edir.mkdir(exist_ok=True)
        (edir / f"{self.prop}.json").write_text(jdump(ev, indent=1) + "\n")
        shutil.rmtree(self.scratch, ignore_errors=True)
        for m, n in sorted(self.known.items()):
            f = self.findings[m]
            print(f"KNOWN-FINDING: property={self.prop} {m}: {f.get('what', '')} (observed {n}x this run)")
        for m, f in sorted(self.findings.items()):
            # open findings that this run's workload happened not to reproduce are still listed (they suppress nothing
            # here: nothing matching them was seen)
            if f.get("status") == "open" and m not in self.known:
                print(f"KNOWN-FINDING: property={self.prop} {m}: {f.get('what', '')} (listed, not observed in this run)")
        print(f"[{self.prop}] tier={self.tier} seed={self.seed} evaluations={self.evaluations} "
              f"distinct_nontrivial={len(self.sigs)} violations={len(self.violations)} "
              f"known={sum(self.known.values())} may={self.may} inconclusive={len(self.inconclusive)} "
              f"counters={jdump(self.counters)} wall={wall:.1f}s")
        if self.violations:
            for rp in replay_paths:
                print(f"VIOLATION property={self.prop} replay={rp}")
            return 1
        if len(self.sigs) < self.min_nontrivial or self.evaluations == 0:
            print(f"INCONCLUSIVE property={self.prop} monitor reached only {len(self.sigs)} "
                  f"non-trivial cases (need {self.min_nontrivial})")
            return 2
        if len(self.inconclusive) > max(2, self.evaluations // 4):
            print(f"INCONCLUSIVE property={self.prop} {len(self.inconclusive)} of {self.evaluations} "
                  f"cases inconclusive: {jdump(self.inconclusive[:2])[:1500]}")
            return 2
        return 0


def run_group(cmd, timeout, **kw):
    """Run a command in its own session and wait for *that process* only (its output goes to temporary
    files, not pipes, so surviving grandchildren cannot keep us waiting); the whole process group (pool
    children, grandchildren) is killed when it finishes or times out, so nothing outlives a case.
    -> (returncode | "timeout", stdout bytes, stderr bytes)"""
    import signal
    with tempfile.TemporaryFile() as fo, tempfile.TemporaryFile() as fe:
        p = subprocess.Popen(cmd, start_new_session=True, stdout=fo, stderr=fe, stdin=subprocess.DEVNULL, **kw)
        try:
            rc = p.wait(timeout=timeout)
        except subprocess.TimeoutExpired:
            rc = "timeout"
        finally:
            try:
                os.killpg(p.pid, signal.SIGKILL)
            except OSError:
                pass
            try:
                p.wait(timeout=10)
            except Exception:  # noqa: BLE001
                pass
        fo.seek(0)
        fe.seek(0)
        return rc, fo.read()[-20000:], fe.read()[-20000:]


def guard(fn):
    """Decorator for case functions: an exception inside the *harness* is inconclusive."""
    def wrapped(case, wctx):
        try:
            return fn(case, wctx)
        except HarnessError as e:
            return {"verdict": "inconclusive", "case": case, "why": "harness: " + str(e)}
    wrapped.__name__ = fn.__name__
    return wrapped


class HarnessError(Exception):
    pass


def short_tb(e: BaseException, n=6) -> str:
    return "".join(traceback.format_exception(type(e), e, e.__traceback__)[-n:])[-1500:]
