"""pytest plugin: run pydra's own test-suite as a *workload* with runtime monitors installed.

    PYTHONPATH=/repo:/verif VP_SUITE_REPORT=<dir> python -m pytest -p vp.suite_monitor <pydra tests>

Monitors (module-attribute wrappers, nothing in /repo is edited):
  graph   after every public mutating DiGraph operation (outermost call only) a graph that has a
          sorted list must list each remaining node once and order every remaining edge forward (C37);
          a sorting loop whose state repeats is a lasso (C18)
  job     after Job.run returns or raises: the process cwd is what it was before the call and no
          <uid>_info.json of that job is left in its cache root (C35)
Every evaluation is counted; violations are appended with the running test id.  Each xdist worker
writes <dir>/report-<pid>.json at session end; zero evaluations means the monitor was never reached
(inconclusive, never "held").
"""
import json
import os
import threading

import pytest

REPORT = {"graph_checks": 0, "job_runs": 0, "sort_passes": 0, "violations": []}
CURRENT = {"test": None}
_depth = threading.local()


def _violation(kind, detail):
    if len(REPORT["violations"]) < 50:
        REPORT["violations"].append({"monitor": kind, "test": CURRENT["test"], "detail": detail})


def _check_graph(g, op):
    srt = getattr(g, "_sorted_nodes", None)
    if srt is None:
        return
    REPORT["graph_checks"] += 1
    names = [n.name for n in srt]
    nodes = [n.name for n in g.nodes]
    if sorted(names) != sorted(nodes):
        _violation("graph", {"op": op, "why": "sorted_nodes is not a permutation of nodes", "sorted": names, "nodes": nodes})
        return
    idx = {n: i for i, n in enumerate(names)}
    for u, v in g.edges:
        if u.name in idx and v.name in idx and idx[u.name] >= idx[v.name]:
            _violation("graph", {"op": op, "why": f"edge {u.name}->{v.name} not forward", "sorted": names})
            return


def _install():
    from pydra.engine.graph import DiGraph
    from pydra.engine.job import Job
    if getattr(DiGraph, "_verif_suite", False):
        return
    DiGraph._verif_suite = True
    for name in ("add_nodes", "add_edges", "remove_nodes", "remove_nodes_connections", "remove_successors_nodes",
                 "remove_previous_connections", "sorting"):
        orig = getattr(DiGraph, name)

        def make(orig, name):
            def wrapper(self, *a, **k):
                d = getattr(_depth, "n", 0)
                _depth.n = d + 1
                try:
                    return orig(self, *a, **k)
                finally:
                    _depth.n = d
                    # remove_nodes leaves a documented work-in-progress state until the connections are
                    # removed; the order among the remaining nodes must be valid there too
                    if d == 0:
                        try:
                            _check_graph(self, name)
                        except Exception as e:  # noqa: BLE001 - a monitor bug must not fail the suite
                            REPORT.setdefault("monitor_errors", []).append(repr(e)[:200])
            wrapper.__name__ = name
            return wrapper
        setattr(DiGraph, name, make(orig, name))
    orig_sorting = DiGraph._sorting

    def _sorting(self, notsorted_list, predecessors):
        REPORT["sort_passes"] += 1
        sorted_part, remaining = orig_sorting(self, notsorted_list, predecessors)
        if not sorted_part and remaining:
            names = tuple(n.name for n in remaining)
            if getattr(self, "_verif_noprog", None) == names:
                _violation("lasso", {"why": "sorting made no progress twice in a row", "remaining": list(names)})
                raise RuntimeError("verif: non-terminating sort loop")
            self._verif_noprog = names
        else:
            self._verif_noprog = None
        return sorted_part, remaining
    DiGraph._sorting = _sorting
    orig_run = Job.run

    def run(self, rerun=False):
        cwd = os.getcwd()
        try:
            return orig_run(self, rerun)
        finally:
            REPORT["job_runs"] += 1
            try:
                now = os.getcwd()
            except FileNotFoundError:
                now = None
            if now != cwd:
                _violation("job", {"why": "cwd not restored after Job.run", "before": cwd, "after": now})
                try:
                    os.chdir(cwd)
                except OSError:
                    pass
            info = self.cache_root / f"{self.uid}_info.json"
            if info.exists():
                _violation("job", {"why": "info file left behind after Job.run", "file": str(info)})
    Job.run = run


def pytest_configure(config):
    _install()


@pytest.hookimpl(tryfirst=True)
def pytest_runtest_setup(item):
    CURRENT["test"] = item.nodeid


def pytest_sessionfinish(session, exitstatus):
    d = os.environ.get("VP_SUITE_REPORT")
    if d:
        os.makedirs(d, exist_ok=True)
        with open(os.path.join(d, f"report-{os.getpid()}.json"), "w") as f:
            json.dump(REPORT, f)
