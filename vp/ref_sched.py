"""Scheduler-outcome model for C28, from the property statement.

A job's response script (see vp/fakes/sched) decides what the worker must report:
  complete  <=> the scheduler reports successful completion AND the result exists
  failed    <=> the scheduler reports failure (or success without a result)
  cancelled / timeout / preempted / evicted are never an outcome: the job must be requeued /
  resubmitted and the walk goes on; accounting permanently missing is MAY (error or keep polling,
  never complete)."""
TRANSIENT = {"pending", "running"}
REQUEUE = {"cancelled", "timeout", "preempted", "evicted"}


def job_outcome(steps):
    for i, s in enumerate(steps):
        st, last = s["st"], i == len(steps) - 1
        if st in TRANSIENT or st in REQUEUE:
            if last:
                return "may"          # never generated: a script ends in a verdict
            continue
        if st == "acct_missing":
            if last:
                return "may"
            continue
        if st == "run":
            return "failed" if s.get("body_fails") else "complete"
        return "failed"               # completed_noexec (no result), failed, failed_after_run
    return "may"


def overall(kind, scripts):
    """expected outcome of the whole submission and the logical jobs that get submitted"""
    o = [job_outcome(s) for s in scripts]
    if kind == "single":
        sub = [0]
    elif kind == "chain2":
        sub = [0] + ([1] if o[0] == "complete" else [])
    else:  # par3: a, b in parallel; c after a, d after b
        sub = [0, 1] + [2, 3][:sum(1 for x in o[:2] if x == "complete")]
    outs = [o[k] for k in sub]
    if "may" in outs:
        return "may", sub
    return ("failed" if "failed" in outs else "complete"), sub
