"""Type grammar and value terms shared by C20 / C21.

A *type spec* is JSON: a scalar name ("int", "float", "bool", "str", "bytes", "Path", "File",
"Directory", "None", "Any") or a list [ctor, *args] with ctor in
  opt(T) union(A,B,..) list(T) tuple(A,B,..) vtuple(T)=tuple[T, ...] dict(K,V) set(T) frozenset(T)
  Sequence(T) Iterable(T) Mapping(K,V) MIO(T)=MultiInputObj[T]
A *value term* is JSON as well and is turned into a python object by build_value(term, root):
  ["i",n] ["f",x] ["b",bool] ["s",str] ["y",latin1 str]=bytes ["n"]=None ["sp",rel]=str path
  ["P",rel]=Path ["F",rel]=File ["D",rel]=Directory ["L",[..]] ["T",[..]] ["S",[..]] ["Z",[..]]
  ["M",[[k,v],..]] ["R",n]=range(n)
Paths are relative to a per-worker root prepared by make_root() (f0.txt, f1.dat, d0/, d1/; "nope.txt"
does not exist).
"""
from __future__ import annotations

import os
from pathlib import Path

SCALARS = ["int", "float", "bool", "str", "bytes", "Path", "File", "Directory", "Any"]
HASHABLE_SCALARS = ["int", "float", "bool", "str", "bytes", "Path"]
UNARY = ["opt", "list", "vtuple", "set", "frozenset", "Sequence", "Iterable", "MIO"]
ABSTRACT_SEQ = ("Sequence", "Iterable")
FILES = ["f0.txt", "f1.dat"]
DIRS = ["d0", "d1"]
MISSING = "nope.txt"


# ---------------------------------------------------------------------------- types
def type_src(s) -> str:
    if isinstance(s, str):
        return {"None": "type(None)", "Any": "ty.Any"}.get(s, s)
    c, a = s[0], s[1:]
    if c == "opt":
        return f"ty.Optional[{type_src(a[0])}]"
    if c == "union":
        return "ty.Union[" + ", ".join(type_src(x) for x in a) + "]"
    if c == "tuple":
        return "tuple[" + ", ".join(type_src(x) for x in a) + "]"
    if c == "vtuple":
        return f"tuple[{type_src(a[0])}, ...]"
    if c in ("list", "set", "frozenset", "dict"):
        return c + "[" + ", ".join(type_src(x) for x in a) + "]"
    if c in ("Sequence", "Iterable", "Mapping"):
        return f"ty.{c}[" + ", ".join(type_src(x) for x in a) + "]"
    if c == "MIO":
        return f"MultiInputObj[{type_src(a[0])}]"
    raise ValueError(s)


def namespace():
    import typing as ty
    from pydra.utils.typing import MultiInputObj
    from fileformats.generic import File, Directory
    return {"ty": ty, "MultiInputObj": MultiInputObj, "File": File, "Directory": Directory, "Path": Path}


def to_type(s):
    return eval(type_src(s), namespace())  # noqa: S307 - the source is produced by type_src only


def depth(s) -> int:
    return 0 if isinstance(s, str) else 1 + max(depth(x) for x in s[1:])


def subterms(s):
    yield s
    if not isinstance(s, str):
        for x in s[1:]:
            yield from subterms(x)


def contains(s, names) -> bool:
    return any((t if isinstance(t, str) else t[0]) in names for t in subterms(s))


def hashable(s) -> bool:
    if isinstance(s, str):
        return s in HASHABLE_SCALARS or s == "None"
    if s[0] in ("tuple", "vtuple", "frozenset", "opt", "union"):
        return all(hashable(x) for x in s[1:])
    return False


def gen_type(rng, d, need_hashable=False, allow_any=True):
    scal = HASHABLE_SCALARS if need_hashable else (SCALARS if allow_any else SCALARS[:-1])
    if d <= 0 or rng.random() < 0.25:
        return rng.choice(scal)
    for _ in range(20):
        c = rng.choice(["opt", "union", "list", "tuple", "vtuple", "dict", "set", "frozenset",
                        "Sequence", "Sequence", "Iterable", "Mapping", "MIO", "list"])
        if need_hashable and c not in ("opt", "union", "tuple", "vtuple", "frozenset"):
            continue
        sub = lambda h=need_hashable: gen_type(rng, d - 1, h, allow_any)  # noqa: E731
        if c == "opt":
            t = sub()
            if t == "Any" or (not isinstance(t, str) and t[0] in ("opt",)):
                continue
            return ["opt", t]
        if c == "union":
            alts = []
            for _ in range(rng.choice([2, 2, 3])):
                t = sub()
                if t != "Any" and t not in alts:
                    alts.append(t)
            if rng.random() < 0.2 and "None" not in alts:
                alts.append("None")
            if len(alts) < 2:
                continue
            return ["union"] + alts
        if c == "tuple":
            return ["tuple"] + [sub() for _ in range(rng.choice([1, 2, 2, 3]))]
        if c in ("dict", "Mapping"):
            return [c, gen_type(rng, min(d - 1, 1), True, allow_any), sub()]
        if c in ("set", "frozenset"):
            return [c, gen_type(rng, d - 1, True, allow_any)]
        return [c, sub()]
    return rng.choice(scal)


def depth1_types(keys=("str", "int"), tuple_elems=("int", "str", "float", "Path"), with_any=True):
    """Every type of depth <= 1 (dict keys / tuple elements restricted to the given scalars)."""
    scal = SCALARS if with_any else SCALARS[:-1]
    out = list(scal)
    for c in UNARY:
        for t in scal:
            if c in ("set", "frozenset") and t not in HASHABLE_SCALARS:
                continue
            if c == "opt" and t == "Any":
                continue
            out.append([c, t])
    real = [t for t in scal if t != "Any"]
    for i, a in enumerate(real):
        for b in real[i + 1:]:
            out.append(["union", a, b])
    for c in ("dict", "Mapping"):
        for k in keys:
            for v in scal:
                out.append([c, k, v])
    for a in tuple_elems:
        out.append(["tuple", a])
        for b in tuple_elems:
            out.append(["tuple", a, b])
    return out


def mutate_type(rng, s, allow_any=False):
    """A type related to s: the kind of change a user makes between an upstream output and a
    downstream input (other container, wider scalar, optional, wrapped, other arity)."""
    WIDEN = {"int": ["float", "bool", "str"], "bool": ["int", "float"], "float": ["int"],
             "str": ["Path", "File", "bytes", "int"], "Path": ["str", "File", "Directory"],
             "File": ["Path", "str", "Directory"], "Directory": ["Path", "str", "File"],
             "bytes": ["str", "int"], "Any": ["int"]}
    SEQ = ["list", "vtuple", "set", "frozenset", "Sequence", "Iterable", "MIO"]

    def mut(t, top):
        r = rng.random()
        if isinstance(t, str):
            if r < 0.5:
                return rng.choice(WIDEN.get(t, ["int"]))
            if r < 0.65:
                return ["opt", t] if t != "Any" else t
            if r < 0.8:
                return [rng.choice(["list", "MIO", "Sequence", "vtuple"]), t]
            if r < 0.9 and t != "Any":
                o = rng.choice([x for x in SCALARS[:-1] if x != t])
                return ["union", t, o]
            return t
        c, a = t[0], t[1:]
        if r < 0.45:  # change below
            i = rng.randrange(len(a))
            new = list(a)
            new[i] = mut(a[i], False)
            if c in ("set", "frozenset") and not hashable(new[0]):
                return t
            if c in ("dict", "Mapping") and not hashable(new[0]):
                return t
            if c == "opt" and (new[0] == "Any" or (not isinstance(new[0], str) and new[0][0] == "opt")):
                return t
            if c == "union" and (len({repr(x) for x in new}) < len(new) or "Any" in new):
                return t
            return [c] + new
        if c in SEQ:
            if r < 0.75:
                c2 = rng.choice([x for x in SEQ if x != c])
                if c2 in ("set", "frozenset") and not hashable(a[0]):
                    c2 = "list"
                return [c2, a[0]]
            if r < 0.85:
                return ["tuple"] + [a[0]] * rng.choice([1, 2, 3])
            if r < 0.92:
                return ["opt", t]
            return a[0]
        if c == "tuple":
            if r < 0.6:
                u = a[0] if len({repr(x) for x in a}) == 1 else ["union"] + [x for i, x in enumerate(a)
                                                                              if x not in a[:i]]
                if not isinstance(u, str) and u[0] == "union" and "Any" in u[1:]:
                    u = a[0]
                return [rng.choice(["list", "vtuple", "Sequence", "MIO"]), u]
            if r < 0.8:
                return ["tuple"] + list(a) + [a[-1]]
            return ["tuple"] + list(a[:-1]) if len(a) > 1 else ["list", a[0]]
        if c in ("dict", "Mapping"):
            if r < 0.8:
                return ["Mapping" if c == "dict" else "dict"] + list(a)
            return ["list", a[0]]
        if c == "opt":
            return a[0] if r < 0.7 else ["union", a[0], "str", "None"] if a[0] != "str" else t
        if c == "union":
            if r < 0.7:
                return rng.choice(a) if "None" not in a or len(a) > 2 else t
            o = rng.choice(SCALARS[:-1])
            return t if o in a else ["union"] + list(a) + [o]
        return t

    for _ in range(5):
        m = mut(s, True)
        if m != s and m != "None":
            return m
    return s


# ---------------------------------------------------------------------------- values
def make_root(root: Path):
    root.mkdir(parents=True, exist_ok=True)
    for f in FILES:
        (root / f).write_text("data " + f)
    for d in DIRS:
        (root / d).mkdir(exist_ok=True)
        (root / d / "inner.txt").write_text("x")
    return root


def build_value(t, root: Path):
    k = t[0]
    if k == "i":
        return int(t[1])
    if k == "f":
        return float(t[1])
    if k == "b":
        return bool(t[1])
    if k == "s":
        return str(t[1])
    if k == "y":
        return t[1].encode("latin1")
    if k == "n":
        return None
    if k == "sp":
        return str(Path(root) / t[1])
    if k == "P":
        return Path(root) / t[1]
    if k == "F":
        from fileformats.generic import File
        return File(Path(root) / t[1])
    if k == "D":
        from fileformats.generic import Directory
        return Directory(Path(root) / t[1])
    if k == "L":
        return [build_value(x, root) for x in t[1]]
    if k == "T":
        return tuple(build_value(x, root) for x in t[1])
    if k == "S":
        return {build_value(x, root) for x in t[1]}
    if k == "Z":
        return frozenset(build_value(x, root) for x in t[1])
    if k == "M":
        return {build_value(a, root): build_value(b, root) for a, b in t[1]}
    if k == "R":
        return range(int(t[1]))
    raise ValueError(t)


def term_hashable(t) -> bool:
    if t[0] in ("L", "S", "M"):
        return False
    if t[0] in ("T", "Z"):
        return all(term_hashable(x) for x in t[1])
    return True


INTS = [-1, 0, 1, 2, 7, 12]
FLOATS = [0.0, 1.5, -2.25, 3.0]
STRS = ["", "a", "12", "ab c", "x,y", "[1]"]


def gen_member(rng, s, path_kind="file", liberal=False, str_paths=False):
    """A value term that conforms to spec s.  path_kind: what str/Path leaves point to.
    liberal=True also uses non-canonical members (bool for int, str for Sequence[str], range ...);
    str_paths=True makes every str leaf a path string of that kind."""
    g = lambda x: gen_member(rng, x, path_kind, liberal, str_paths)  # noqa: E731
    rel = {"file": rng.choice(FILES), "dir": rng.choice(DIRS), "missing": MISSING}[path_kind]
    if isinstance(s, str):
        if s == "int":
            if liberal and rng.random() < 0.15:
                return ["b", rng.random() < 0.5]
            return ["i", rng.choice(INTS)]
        if s == "float":
            if liberal and rng.random() < 0.2:
                return ["i", rng.choice(INTS)]
            return ["f", rng.choice(FLOATS)]
        if s == "bool":
            return ["b", rng.random() < 0.5]
        if s == "str":
            return ["sp", rel] if str_paths else ["s", rng.choice(STRS)]
        if s == "bytes":
            return ["y", rng.choice(["", "ab", "\x00\xff"])]
        if s == "None":
            return ["n"]
        if s == "Path":
            return ["P", rel]
        if s == "File":
            return ["F", rng.choice(FILES)]
        if s == "Directory":
            return ["D", rng.choice(DIRS)]
        if s == "Any":
            return gen_member(rng, gen_type(rng, 1, False, False), path_kind, liberal, str_paths)
        raise ValueError(s)
    c, a = s[0], s[1:]
    n = rng.choice([0, 1, 2, 2, 3])
    if c == "opt":
        return ["n"] if rng.random() < 0.3 else g(a[0])
    if c == "union":
        return g(rng.choice(a))
    if c in ("list", "MIO"):
        return ["L", [g(a[0]) for _ in range(n)]]
    if c == "tuple":
        return ["T", [g(x) for x in a]]
    if c == "vtuple":
        return ["T", [g(a[0]) for _ in range(n)]]
    if c in ("set", "frozenset"):
        items = [x for x in (g(a[0]) for _ in range(n)) if term_hashable(x)]
        return ["S" if c == "set" else "Z", items]
    if c in ("dict", "Mapping"):
        pairs = [[k, g(a[1])] for k in (g(a[0]) for _ in range(n)) if term_hashable(k)]
        return ["M", pairs]
    if c == "Sequence":
        if liberal and a[0] in ("str", "Any") and rng.random() < 0.35:
            return ["s", rng.choice(STRS)]
        if liberal and a[0] == "int" and rng.random() < 0.3:
            return rng.choice([["R", 3], ["y", "ab"]])
        return [rng.choice(["L", "T"]), [g(a[0]) for _ in range(n)]]
    if c == "Iterable":
        if liberal and a[0] in ("str", "Any") and rng.random() < 0.35:
            return ["s", rng.choice(STRS)]
        k = rng.choice(["L", "T", "S"])
        items = [g(a[0]) for _ in range(n)]
        if k == "S":
            items = [x for x in items if term_hashable(x)]
        return [k, items]
    raise ValueError(s)


LEAF_POOL = [["i", 5], ["i", 0], ["b", True], ["f", 1.5], ["f", 2.0], ["s", "12"], ["s", "ab"], ["s", ""],
             ["y", "ab"], ["n"], ["P", "f0.txt"], ["P", "d0"], ["sp", "f0.txt"], ["sp", "d0"],
             ["sp", MISSING], ["F", "f0.txt"], ["D", "d0"]]


def hostile_pool():
    """Fixed values tried against every systematic type (seed independent)."""
    return LEAF_POOL + [
        ["L", []], ["L", [["i", 1], ["i", 2]]], ["T", [["i", 1], ["i", 2]]], ["S", [["i", 1], ["i", 2]]],
        ["Z", [["s", "a"]]], ["L", [["s", "ab"], ["s", "cd"]]], ["T", [["s", "ab"]]],
        ["L", [["i", 1], ["s", "a"]]], ["T", [["i", 1], ["s", "a"]]], ["L", [["L", [["i", 1]]]]],
        ["M", [[["s", "a"], ["i", 1]]]], ["M", [[["i", 1], ["i", 2]]]], ["M", [[["s", "k"], ["s", "xy"]]]],
        ["M", []], ["R", 2], ["L", [["f", 1.0], ["i", 2]]], ["L", [["b", True]]],
        ["L", [["sp", "f0.txt"]]], ["L", [["P", "f0.txt"], ["P", "f1.dat"]]], ["L", [["n"]]],
        ["T", [["s", "12"], ["i", 3]]],
    ]


def perturb(rng, t):
    """Near miss: change one node of a value term."""
    def leaf():
        return rng.choice(LEAF_POOL)

    def walk(x, p):
        k = x[0]
        if k in ("L", "T", "S", "Z") and x[1] and rng.random() > p:
            i = rng.randrange(len(x[1]))
            items = list(x[1])
            items[i] = walk(items[i], p + 0.3)
            if k in ("S", "Z"):
                items = [y for y in items if term_hashable(y)]
            return [k, items]
        if k == "M" and x[1] and rng.random() > p:
            i = rng.randrange(len(x[1]))
            pairs = [list(y) for y in x[1]]
            j = rng.randrange(2)
            pairs[i][j] = walk(pairs[i][j], p + 0.3)
            pairs = [y for y in pairs if term_hashable(y[0])]
            return ["M", pairs]
        r = rng.random()
        if k in ("L", "T", "S", "Z"):
            if r < 0.3:
                k2 = rng.choice([y for y in ("L", "T", "S") if y != k])
                items = x[1] if k2 != "S" else [y for y in x[1] if term_hashable(y)]
                return [k2, items]
            if r < 0.5:
                return ["s", rng.choice(["12", "ab", ""])]
            if r < 0.7:
                return [k, list(x[1]) + [x[1][-1] if x[1] and rng.random() < 0.5 else leaf()]] \
                    if k in ("L", "T") else leaf()
            if r < 0.85 and x[1]:
                return [k, list(x[1][:-1])]
            return leaf()
        if k == "M":
            return rng.choice([["L", [["T", list(p)] for p in x[1]]], ["s", "ab"], leaf(),
                               ["L", [p[0] for p in x[1]]]])
        if r < 0.25:
            return ["L", [x]]
        if k == "i" and r < 0.5:
            return rng.choice([["s", str(x[1])], ["f", float(x[1])], ["f", x[1] + 0.5], ["b", bool(x[1])]])
        if k == "s" and r < 0.5:
            return rng.choice([["y", x[1]], ["L", [["s", c] for c in x[1]]], ["i", 3], ["sp", "f0.txt"]])
        if k in ("P", "sp", "F", "D") and r < 0.6:
            return rng.choice([["sp", MISSING], ["P", MISSING], ["sp", "d0"], ["P", "d1"], ["sp", "f0.txt"],
                               ["P", "f1.dat"]])
        return leaf()

    return walk(t, 0.3)


def swap_path_kind(t):
    """The same term with every str-path / Path leaf pointing to a directory instead of a file and
    vice versa (FileSet objects are left alone)."""
    k = t[0]
    if k in ("sp", "P"):
        rel = t[1]
        if rel in FILES:
            return [k, DIRS[FILES.index(rel)]]
        if rel in DIRS:
            return [k, FILES[DIRS.index(rel)]]
        return t
    if k in ("L", "T", "S", "Z"):
        return [k, [swap_path_kind(x) for x in t[1]]]
    if k == "M":
        return [k, [[swap_path_kind(a), swap_path_kind(b)] for a, b in t[1]]]
    return t


def term_kinds(t):
    yield t[0]
    if t[0] in ("L", "T", "S", "Z"):
        for x in t[1]:
            yield from term_kinds(x)
    elif t[0] == "M":
        for a, b in t[1]:
            yield from term_kinds(a)
            yield from term_kinds(b)


def path_kind_for(target_spec) -> str:
    """What generated str/Path leaves should point to so that a FileSet target can accept them."""
    if contains(target_spec, ("Directory",)) and not contains(target_spec, ("File",)):
        return "dir"
    return "file"


def abs_rel(path, root) -> str:
    return os.path.relpath(str(path), str(root))
