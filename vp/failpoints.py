"""Source-free failpoints with sys.monitoring (CPython 3.12): LINE events enabled only on
chosen code objects of the real pydra modules.

Modes (configured by a dict, or by the JSON in env VERIF_FAILPOINT for child processes):
  record  - append (qualname, relative line, statement info) of every event to a trace
  exit    - os._exit(137) immediately before the k-th event (kill -9 equivalent: no finally, no atexit)
  raise   - raise InjectedFault immediately before the k-th event (propagates into the frame)
  delay   - seeded sleep 0..max_ms at each event (yield injection between statements, across processes)
Event indices are enumerated from the current tree at run time by a recording pass; statements
are classified with `ast` (names called in the statement), so checks follow edits to /repo.
"""
from __future__ import annotations

import ast
import importlib
import inspect
import json
import os
import random
import sys
import time

TOOL = 3
DEFAULT_TARGETS = [
    "pydra.engine.job:Job.run",
    "pydra.engine.job:Job._populate_filesystem",
    "pydra.engine.job:Job.result",
    "pydra.engine.result:save",
    "pydra.engine.result:record_error",
    "pydra.engine.result:load_result",
]


class InjectedFault(Exception):
    pass


STATE = {"installed": False, "trace": [], "n": 0}


def resolve(spec):
    mod, qual = spec.split(":")
    obj = importlib.import_module(mod)
    for part in qual.split("."):
        obj = getattr(obj, part)
    obj = inspect.unwrap(obj)
    if isinstance(obj, property):
        obj = obj.fget
    return getattr(obj, "__func__", obj)


_STMT_CACHE = {}


def stmt_table(func):
    """{absolute line: {"calls": [names], "kind": ast node type}} for statement-start lines"""
    code = func.__code__
    if code in _STMT_CACHE:
        return _STMT_CACHE[code]
    table = {}
    try:
        src, first = inspect.getsourcelines(func)
        import textwrap
        tree = ast.parse(textwrap.dedent("".join(src)))
        for node in ast.walk(tree):
            if isinstance(node, ast.stmt):
                calls = []
                # only the statement's own expression parts, not nested statement bodies
                for child in ast.iter_child_nodes(node):
                    if isinstance(child, ast.stmt):
                        continue
                    for sub in ast.walk(child):
                        if isinstance(sub, ast.Call):
                            f = sub.func
                            name = []
                            while isinstance(f, ast.Attribute):
                                name.append(f.attr)
                                f = f.value
                            if isinstance(f, ast.Name):
                                name.append(f.id)
                            calls.append(".".join(reversed(name)))
                table.setdefault(first + node.lineno - 1, {"calls": calls, "kind": type(node).__name__})
    except (OSError, SyntaxError):
        pass
    _STMT_CACHE[code] = table
    return table


def install(cfg: dict):
    """cfg: {"mode", "k", "targets", "out", "seed", "max_ms", "p"}"""
    mon = sys.monitoring
    if STATE["installed"]:
        uninstall()
    targets = cfg.get("targets") or DEFAULT_TARGETS
    funcs = {}
    for t in targets:
        try:
            f = resolve(t)
            funcs[f.__code__] = (t.split(":")[1], f)
        except Exception:  # noqa: BLE001
            continue
    mode, k = cfg.get("mode", "record"), int(cfg.get("k", -1))
    rnd = random.Random(cfg.get("seed", 0))
    max_ms, p = cfg.get("max_ms", 10), cfg.get("p", 0.5)
    out = cfg.get("out")
    STATE.update(installed=True, trace=[], n=0, cfg=cfg, out=out, pid=os.getpid())

    def on_line(code, line):
        where = cfg.get("where", "any")
        if where != "any":
            same = os.getpid() == STATE["pid"]
            if (where == "self") != same:
                return
        qual, f = funcs[code]
        STATE["n"] += 1
        n = STATE["n"]
        if mode == "record":
            info = stmt_table(f).get(line, {})
            STATE["trace"].append([qual, line - code.co_firstlineno, info.get("kind"), info.get("calls", [])])
        elif mode == "exit" and n == k:
            if out:
                _dump({"fired": True, "at": [qual, line - code.co_firstlineno]}, out)
            os._exit(137)
        elif mode == "raise" and n == k:
            STATE["fired"] = [qual, line - code.co_firstlineno]
            if cfg.get("exc") == "KeyboardInterrupt":     # an interruption that is not an Exception subclass
                raise KeyboardInterrupt(f"injected before event {k}: {qual}+{line - code.co_firstlineno}")
            raise InjectedFault(f"injected before event {k}: {qual}+{line - code.co_firstlineno}")
        elif mode == "delay":
            if rnd.random() < p:
                time.sleep(rnd.random() * max_ms / 1000.0)
            if cfg.get("checkpoints"):
                from vp import evlog
                if rnd.random() < 0.15:
                    evlog.emit("cp", at=f"{qual}+{line - code.co_firstlineno}")

    mon.use_tool_id(TOOL, "verif")
    mon.register_callback(TOOL, mon.events.LINE, on_line)
    for c in funcs:
        mon.set_local_events(TOOL, c, mon.events.LINE)
    STATE["codes"] = list(funcs)


def uninstall():
    mon = sys.monitoring
    if not STATE["installed"]:
        return
    for c in STATE.get("codes", []):
        mon.set_local_events(TOOL, c, 0)
    mon.register_callback(TOOL, mon.events.LINE, None)
    mon.free_tool_id(TOOL)
    STATE["installed"] = False


def trace():
    return list(STATE["trace"])


def count():
    return STATE["n"]


def _dump(obj, path):
    with open(path, "w") as f:
        json.dump(obj, f)


def install_from_env():
    v = os.environ.get("VERIF_FAILPOINT")
    if v:
        install(json.loads(v))
        return True
    return False
