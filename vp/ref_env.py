"""Environment-overlay model for C39: what a process started in an Lmod environment must see."""


def overlay(caller: dict, module_assignments) -> dict:
    """caller's environment with the module-set variables added/overridden (later wins)"""
    e = dict(caller)
    for k, v in module_assignments:
        e[k] = v
    return e


def diff(expected: dict, observed: dict, module_keys) -> list:
    bad = []
    for k, v in expected.items():
        if k not in observed:
            bad.append({"kind": "module-var-missing" if k in module_keys else "caller-var-dropped", "var": k})
        elif observed[k] != v:
            bad.append({"kind": "module-var-wrong" if k in module_keys else "caller-var-changed",
                        "var": k, "got": observed[k], "want": v})
    for k in observed:
        if k not in expected:
            bad.append({"kind": "unexpected-var", "var": k, "got": observed[k]})
    return bad
