"""Module-level pydra task definitions used by the cache-identity checks C06, C07 and C09.

Defined once at module level so that every session (worker subprocess, fresh child interpreter,
cf pool worker) sees the same definitions.  Bodies bump an execution counter file named by
$VP_COUNTER (never an input: it must not influence the task identity).
"""
from __future__ import annotations

import os
import typing as ty
from pathlib import Path

from fileformats.generic import Directory, File
from pydra.compose import python, shell, workflow

from vp import gen_values as G

FAKES = Path(__file__).resolve().parent / "fakes"


def bump(tag):
    p = os.environ.get("VP_COUNTER")
    if p:
        with open(p, "a") as f:
            f.write(tag + "\n")


def executions() -> int:
    p = os.environ.get("VP_COUNTER")
    try:
        return len(Path(p).read_text().splitlines())
    except Exception:
        return 0


@python.define
def Describe(x: ty.Any) -> str:
    from vp.cache_tasks import bump
    from vp.gen_values import describe
    bump("Describe")
    return describe(x)


@python.define(xor=[("a", "b"), ("c", "d")])
def XorTask(a: int | None = None, b: int | None = None, c: int | None = None, d: int | None = None) -> int:
    from vp.cache_tasks import bump
    bump("XorTask")
    return (a or 0) + 10 * (b or 0) + 100 * (c or 0) + 1000 * (d or 0)


@python.define(xor=[("a", "b")])
def Xor1Task(a: int | None = None, b: int | None = None, c: int | None = None) -> int:
    from vp.cache_tasks import bump
    bump("Xor1Task")
    return (a or 0) + 10 * (b or 0) + 100 * (c or 0)


@python.define
def Outer(inner: ty.Any, k: int) -> str:
    """Takes another task *as a value* (what workflow-building helpers do)."""
    from vp.cache_tasks import bump
    bump("Outer")
    return f"{type(inner).__name__}:{k}"


@python.define
def ReadFile(f: File) -> str:
    from pathlib import Path
    from vp.cache_tasks import bump
    bump("ReadFile")
    return Path(f).read_text()


@python.define
def ReadDir(d: Directory) -> str:
    from pathlib import Path
    from vp.cache_tasks import bump
    bump("ReadDir")
    return "|".join(f"{p.relative_to(Path(d))}={p.read_text()}" for p in sorted(Path(d).rglob("*")) if p.is_file())


@python.define
def AddK(x: int, k: int) -> int:
    return x + k


# ---- definitions that differ in one aspect of the *function* -----------------------------------

def fn_task(name):
    """python task wrapping the table function `name` of vp.gen_values (def / lambda / closure)."""
    f, kind = G.FUNCS[name]
    return python.define(f, inputs={"x": int}, outputs={"out": int})


def _mkwf(k):
    @workflow.define
    def W(x: int) -> int:
        n = workflow.add(AddK(x=x, k=k))
        return n.out
    return W


def wf_task(k):
    """workflow whose constructor closes over k"""
    return _mkwf(k)


# ---- shell definitions that differ in one aspect of the field metadata ------------------------------

def fmt_x(a):
    return f"--x={a}"


def fmt_y(a):
    return f"--y={a}"


FORMATTERS = {"fmt_x": fmt_x, "fmt_y": fmt_y}


def shell_task(sp):
    """sp = {"exe": name in vp/fakes, "a": {type,argstr,position,sep,formatter}, "flag": argstr of a bool field}"""
    a = dict(sp.get("a") or {})
    tp = {"str": str, "int": int, "list": list[str]}[a.pop("type", "str")]
    kw = {"type": tp, "help": a.pop("help", "field a"), "position": a.pop("position", 1)}
    if a.get("formatter"):
        kw["formatter"] = FORMATTERS[a.pop("formatter")]
        a.pop("argstr", None)
    else:
        kw["argstr"] = a.pop("argstr", "-a")
    if "sep" in a:
        kw["sep"] = a.pop("sep")
    inputs = {"a": shell.arg(**kw),
              "b": shell.arg(type=int, argstr="-b", position=2, help="field b"),
              "flag": shell.arg(type=bool, argstr=sp.get("flag", "-v"), position=4, default=False, help="flag")}
    return shell.define(str(FAKES / sp.get("exe", "c06_argv")), inputs=inputs, name="ArgvTask")
