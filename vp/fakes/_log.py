"""Shared by the fake executables: append one invocation's argv to $VP_ARGV_LOG.

Record format: every argument followed by NUL, then the record terminator b"\\x1e\\n".
"""
import os


def log_argv(argv):
    p = os.environ.get("VP_ARGV_LOG")
    if not p:
        return
    rec = b"".join(os.fsencode(a) + b"\0" for a in argv) + b"\x1e\n"
    fd = os.open(p, os.O_WRONLY | os.O_APPEND | os.O_CREAT, 0o644)
    try:
        os.write(fd, rec)
    finally:
        os.close(fd)


def read_log(path):
    try:
        data = open(path, "rb").read()
    except FileNotFoundError:
        return []
    out = []
    for rec in data.split(b"\0\x1e\n"):
        if rec:
            out.append([os.fsdecode(a) for a in rec.split(b"\0")])
    return out
