"""C29 — jobs and results survive serialization to worker processes.

Every case cloudpickles a real object in the harness process and hands the file to a *fresh
interpreter* (subprocess, PYTHONHASHSEED=1, so nothing is shared through fork or hash seeds):
  task      -> the child reports the cache identity it computes,
  job       -> the child reports the identity, runs the deserialised job (real Job.run) and reports
               outputs; the parent then reads the result the child wrote (real load_result),
  submitter -> (with its worker, limits, read-only caches, audit flags) the child reports the
               configuration and runs a task through the deserialised submitter,
  result    -> the child reports the outputs of a Result produced in the parent.
Oracle: identities equal; child outputs == outputs of the same task run in the parent in a separate
cache root; result read back by the parent == what the child reported; configuration preserved.
Workload: term tasks with container / numpy / file inputs, C03 workflows (split/combined,
nested graphs), shell tasks; configuration grid {debug, cf(n_procs)} x max_concurrent x read-only
caches x audit flags.
"""
from __future__ import annotations

import json
import os
import subprocess

from vp import env, ref_wf
from vp.props import c03

LEVEL = "exploration"


def make_task(spec, wctx):
    from vp.terms import F, L
    k = spec["kind"]
    if k == "F":
        return F(tag="S", **spec["args"])
    if k == "L":
        return L(tag="SL", n=3, a=spec["args"]["a"])
    if k == "split":
        return F(tag="SS", e="k").split(["a", "b"], a=["a0", "a1"], b=["b0", "b1"]).combine("b")
    if k == "np":
        import numpy as np
        from vp.c29tasks import NP
        return NP(a=np.arange(spec["n"], dtype=spec["dtype"]).reshape(spec["shape"]), k=spec["k"])
    if k == "file":
        from fileformats.generic import File
        from vp.c29tasks import FileT
        d = wctx.fresh_dir("in")
        p = d / spec["name"]
        p.write_text(spec["content"])
        return FileT(f=File(p), suffix=spec["suffix"])
    if k == "wf":
        from vp.gen_wf import GenWF
        return GenWF(spec=json.dumps(spec["spec"], sort_keys=True))
    if k == "shell":
        from pydra.compose import shell
        Sh = shell.define("echo <text:str> <n:int>")
        return Sh(text=spec["text"], n=spec["n"])
    raise env.HarnessError(k)


def _ov(o):
    from pydra.utils.general import attrs_values
    return attrs_values(o)


def outputs_of(res):
    return json.loads(env.jdump({k: v for k, v in _ov(res.outputs).items() if not k.startswith("_")}))


def child(pkl, outp, timeout=240):
    e = dict(os.environ)
    e["PYTHONHASHSEED"] = "1"
    rc, _, err = env.run_group([env.PY, "-m", "vp.c29child", str(pkl), str(outp)], timeout, cwd=str(env.VERIF), env=e)
    if rc == "timeout":
        raise env.HarnessError("child timeout")
    if not os.path.exists(outp):
        raise env.HarnessError("child wrote nothing: " + err.decode(errors="replace")[-300:])
    return json.loads(open(outp).read())


def decide(case, wctx):
    import cloudpickle as cp
    from pydra.engine.submitter import Submitter
    from pydra.engine.job import Job
    from pydra.engine.workflow import Workflow
    from pydra.utils.general import default_run_cache_root  # noqa: F401
    from pydra.engine.audit import AuditFlag
    Workflow.clear_cache()
    d = wctx.fresh_dir("c")
    task = make_task(case["task"], wctx)
    cfg = case["cfg"]
    problems = []
    # reference: run in the parent, own cache root
    with Submitter(worker="debug", cache_root=d / "parent") as sub:
        ref = outputs_of(sub(task, raise_errors=True))
    parent_checksum = task._checksum
    kind = case["obj"]
    pkl, outp = d / "obj.pkl", d / "child.json"
    obs = {"kind": kind}
    if kind == "task":
        pkl.write_bytes(cp.dumps({"kind": "task", "obj": task}))
        rep = child(pkl, outp)
        if rep.get("err"):
            problems.append({"why": "deserialisation/identity failed in the child", "error": rep["err"]})
        elif rep["checksum"] != parent_checksum:
            problems.append({"why": "cache identity differs after the round trip", "parent": parent_checksum, "child": rep["checksum"]})
        obs["checksum"] = rep.get("checksum")
    elif kind == "job":
        if task._splitter:
            return {"verdict": "inconclusive", "case": case, "why": "split tasks are wrapped by the submitter, no plain Job"}
        sub = Submitter(worker="debug", cache_root=d / "childcache")
        job = Job(task=task, submitter=sub, name="main")
        pchk = job.checksum
        pkl.write_bytes(cp.dumps({"kind": "job", "obj": job}))
        rep = child(pkl, outp)
        if rep.get("err"):
            problems.append({"why": "deserialised job failed in the child", "error": rep["err"], "tb": rep.get("tb")})
        else:
            if rep["checksum"] != pchk:
                problems.append({"why": "job identity differs in the child", "parent": pchk, "child": rep["checksum"]})
            if rep["outputs"] != ref:
                problems.append({"why": "deserialised job ran to different outputs", "child": rep["outputs"], "parent": ref})
            back = job.result()
            if back is None:
                problems.append({"why": "result written by the child is not found by the parent", "child_cache_dir": rep.get("cache_dir"),
                                 "parent_cache_dir": str(job.cache_dir)})
            elif outputs_of(back) != rep["outputs"]:
                problems.append({"why": "result read back by the parent differs from what the child produced",
                                 "read_back": outputs_of(back), "child": rep["outputs"]})
        obs["outputs"] = rep.get("outputs")
    elif kind == "submitter":
        kw = {}
        if cfg["worker"] == "cf":
            kw["n_procs"] = cfg["n_procs"]
        ro = [d / "ro1"] if cfg["readonly"] else None
        if ro:
            ro[0].mkdir()
        flags = AuditFlag.NONE if not cfg["audit"] else AuditFlag.PROV
        wk = cfg["worker"]
        if cfg.get("worker_instance") and cfg["worker"] == "cf":
            # a pre-configured worker object instead of a plugin name + keyword arguments
            from pydra.workers.cf import ConcurrentFuturesWorker
            wk, kw = ConcurrentFuturesWorker(n_procs=cfg["n_procs"]), {}
        sub = Submitter(worker=wk, cache_root=d / "childcache", max_concurrent=cfg["k"] or float("inf"),
                        readonly_caches=ro, propagate_rerun=cfg["propagate"], audit_flags=flags, **kw)
        pkl.write_bytes(cp.dumps({"kind": "submitter", "obj": sub, "task": task}))
        sub.close()
        rep = child(pkl, outp)
        if rep.get("err"):
            problems.append({"why": "deserialised submitter failed in the child", "error": rep["err"], "tb": rep.get("tb")})
        else:
            a = rep["attrs"]
            want = {"cache_root": str((d / "childcache").resolve()), "max_concurrent": repr(cfg["k"] or float("inf")),
                    "propagate_rerun": cfg["propagate"], "n_procs": cfg["n_procs"] if cfg["worker"] == "cf" else None,
                    "readonly": [str(p) for p in (ro or [])], "audit_flags": flags.value}
            for k2, v in want.items():
                if a.get(k2) != v:
                    problems.append({"why": "submitter configuration changed by the round trip", "field": k2, "parent": v, "child": a.get(k2)})
            if rep["outputs"] != ref:
                problems.append({"why": "task run through the deserialised submitter gave different outputs", "child": rep["outputs"], "parent": ref})
        obs["attrs"] = rep.get("attrs")
    elif kind == "result":
        with Submitter(worker="debug", cache_root=d / "p2") as sub:
            res = sub(task, raise_errors=True)
        pkl.write_bytes(cp.dumps({"kind": "result", "obj": res}))
        rep = child(pkl, outp)
        if rep.get("err"):
            problems.append({"why": "Result could not be deserialised in the child", "error": rep["err"]})
        elif rep["outputs"] != ref or rep["errored"]:
            problems.append({"why": "Result differs after the round trip", "child": rep["outputs"], "parent": ref})
        obs["outputs"] = rep.get("outputs")
    r = {"case": case, "sig": env.sig_of(case), "nontrivial": True,
         "counters": {"round_trips": 1, "kind_" + kind: 1, "task_" + case["task"]["kind"]: 1}, "obs": obs}
    if problems:
        r["verdict"] = "violated"
        r["witness"] = {"problems": problems[:3], "reference_outputs": ref}
    else:
        r["verdict"] = "held"
    return r


def case_one(case, wctx):
    return decide(case, wctx)


def gen_task(rng):
    k = rng.choice(["F", "F", "L", "split", "np", "file", "wf", "wf", "shell"])
    if k == "F":
        vals = [["x", "y"], {"k": ["v", 1]}, ("t", 2), "plain", 3, 2.5, {"s1", "s2"}, None, True, b"bytes"]
        args = {"a": rng.choice(vals[:5])}
        if rng.random() < 0.5:
            args["b"] = rng.choice(["q", ["r", "s"]])
        return {"kind": "F", "args": args}
    if k == "L":
        return {"kind": "L", "args": {"a": rng.choice(["u", "w"])}}
    if k == "split":
        return {"kind": "split"}
    if k == "np":
        shape = rng.choice([[6], [2, 3], [3, 2], [1, 6]])
        return {"kind": "np", "n": 6, "shape": shape, "dtype": rng.choice(["int64", "float64", "int32"]), "k": rng.randint(1, 3)}
    if k == "file":
        return {"kind": "file", "name": rng.choice(["a.txt", "b.dat"]), "content": rng.choice(["hello", "world\n"]), "suffix": rng.choice(["", "!"])}
    if k == "shell":
        return {"kind": "shell", "text": rng.choice(["hi", "yo"]), "n": rng.randint(1, 9)}
    while True:
        spec = c03.gen_spec(rng, nmax=rng.choice([2, 3, 4]))
        res = ref_wf.evaluate(spec)
        if not ref_wf.shared_origin_nodes(spec, res) and sum(len(r.jobs) for r in res.values()) <= 8:
            return {"kind": "wf", "spec": spec}


def run(ctx):
    quick = ctx.tier == "quick"
    rng = ctx.rng("gen")
    cases = []
    for i in range(64 if quick else 1500):
        cfg = {"worker": rng.choice(["debug", "cf"]), "n_procs": rng.choice([1, 2, 3, 5]), "k": rng.choice([None, 1, 3]),
               "readonly": rng.random() < 0.4, "audit": rng.random() < 0.3, "propagate": rng.random() < 0.5,
               "worker_instance": rng.random() < 0.5}
        cases.append({"task": gen_task(rng), "obj": ["task", "job", "submitter", "result"][i % 4], "cfg": cfg})
        if cases[-1]["obj"] == "job" and cases[-1]["task"].get("kind") == "split":
            cases[-1]["obj"] = "submitter"      # a split task is wrapped by the submitter: there is no plain Job to pickle
    ctx.rule = ("(task from {term task with container inputs, list task, split+combined task, numpy task, file task, C03 workflow, shell "
                "task}) x (object kind task/job/submitter/result) x configuration grid; every case is a real cross-interpreter round trip; "
                "distinct = distinct case spec")
    ctx.record_all(ctx.pmap("vp.props.c29:case_one", cases, nproc=12, timeout=900 if quick else 3400))
    ctx.assumptions = ["the child is a fresh interpreter with another PYTHONHASHSEED; harness task definitions are importable there "
                       "(PYTHONPATH=/repo:/verif), as a user's module would be"]


def replay(ctx, rep):
    from vp.worker import WCtx
    r = decide(rep["case"], WCtx(ctx.scratch, ctx.seed, ctx.prop, ctx.tier))
    print(env.jdump(r, indent=1))
    return 1 if r["verdict"] == "violated" else 0
