"""C39 — Lmod environment = caller's environment overlaid with the module settings, same argv.

Observation (real process boundary): the executed `dumpenv` prints the environment block and argv
it received; a fake `$MODULESHOME/libexec/lmod` plays `lmod python load ...` from a scenario and
records the assignments it printed.  Reference argv = the same task run under the native
environment.  Oracle: vp.ref_env.overlay(caller environment at submission, assignments printed).
Half of the cases submit a second task with the same modules from the same process after some caller
variables (PATH-like ones included) were changed; its environment must be the overlay of the *current* caller
environment (expected module output = vp/fakes/lmod's rules replayed by `simulate`).
Not generated (statement silent): variable removals (`del os.environ[..]`), values containing both
quote characters / backslash escapes.
Mechanisms: `env-not-inherited` (only caller variables the modules do not touch are missing, all
module variables correct), `quote-truncation` (a module value is cut at the other quote character).
"""
from __future__ import annotations

import json
import os
from pathlib import Path

from vp import env, ref_env

LEVEL = "exploration"
FAKES = env.VERIF / "vp" / "fakes"
DUMP = str(FAKES / "dumpenv")
_T = {}


def task():
    if not _T:
        from pydra.compose import shell
        _T["t"] = shell.define(DUMP, inputs=[
            shell.arg(name="txt", type=str, argstr="--txt", position=1),
            shell.arg(name="n", type=int | None, default=None, argstr="-n{n}", position=2),
            shell.arg(name="words", type=list[str] | None, default=None, argstr="-w...", position=3),
            shell.arg(name="flag", type=bool, default=False, argstr="--flag", position=4),
        ])
    return _T["t"]


VALS = ["1", "/opt/tool/1.2", "a=b", "x:y:z", "two words", "", "-O2 -g", "k=v;w", "/a/b:/c d/e", "(paren)$HOME"]
NAMES = ["TOOL_HOME", "TOOL_OPTS", "OMP_NUM_THREADS", "VPC_A", "VPC_B", "VPC_C", "LICENSE", "FSLDIR", "my_var"]
PATHV = ["PATH", "LD_LIBRARY_PATH", "MANPATH", "VPC_PATH"]


def gen_case(rng, i, rich):
    caller = {}
    for _ in range(rng.randint(5, 15)):
        caller[rng.choice(["VPC_A", "VPC_B", "VPC_C", "VPC_PATH", "MANPATH", "LICENSE", "my_var"]
                          + [f"VPC_X{j}" for j in range(12)])] = rng.choice(VALS)
    mods = {}
    for m in range(rng.randint(1, 3)):
        ops = []
        for _ in range(rng.randint(1, 4)):
            if rng.random() < 0.35:
                ops.append(["prepend", rng.choice(PATHV), rng.choice(["/m/bin", "/opt/m 1/lib", "/x"]), ":"])
            else:
                v = rng.choice(VALS)
                if rich and rng.random() < 0.1:
                    v = rng.choice(["it's", 'say "hi"', "a'b=c", 'p:"q"'])
                ops.append(["set", rng.choice(NAMES), v])
        mods[f"mod{m}/{rng.randint(1, 9)}.0"] = ops
    second = None
    if rng.random() < 0.5:
        second = {k: rng.choice(["/changed/bin", "/c 2/lib:/z", "later"]) for k in rng.sample(PATHV + ["VPC_A", "VPC_X1", "LICENSE"], 3)}
    return {"i": i, "caller": caller, "modules": mods, "second": second, "quote": rng.choice(["'", '"']),
            "eq": rng.choice([" = ", "=", "  =  "]),
            "inputs": {"txt": rng.choice(["hello", "a b", "x=y"]), "n": rng.choice([None, 3]),
                       "words": rng.choice([None, ["u", "v w"]]), "flag": rng.random() < 0.5}}


def simulate(mods, environ):
    """what the fake lmod prints for these modules when started in `environ` (same rules as vp/fakes/lmod)"""
    cur, out = dict(environ), {}
    for m, ops in mods.items():
        for op in ops:
            if op[0] == "set":
                cur[op[1]] = out[op[1]] = op[2]
            else:
                old = cur.get(op[1])
                cur[op[1]] = out[op[1]] = op[2] + (op[3] + old if old else "")
    loaded = ":".join(mods)
    out["LOADEDMODULES"] = loaded + (":" + environ["LOADEDMODULES"] if environ.get("LOADEDMODULES") else "")
    return list(out.items())


def run_case(case, wctx):
    from pydra.engine.submitter import Submitter
    from pydra.environments import lmod, native
    from vp.fakes._log import read_log
    d = wctx.fresh_dir("c")
    home = d / "modhome"
    (home / "libexec").mkdir(parents=True)
    os.symlink(FAKES / "lmod", home / "libexec" / "lmod")
    (d / "scenario.json").write_text(json.dumps({k: case[k] for k in ("modules", "quote", "eq")}))
    kw = {k: v for k, v in case["inputs"].items() if v is not None}
    res = {"case": case, "sig": env.sig_of({k: v for k, v in case.items() if k != "i"}),
           "counters": {"cases": 1}, "distinct": {}}
    T = task()
    try:
        with Submitter(worker="debug", environment=native.Environment(), cache_root=d / "crn") as s:
            nat = json.loads(s(T(**kw)).outputs.stdout)
    except Exception as e:
        return {**res, "verdict": "inconclusive", "why": "native run failed: " + env.short_tb(e)}
    saved = dict(os.environ)
    os.environ.update(case["caller"])
    os.environ.update({"MODULESHOME": str(home), "VP_LMOD_SCENARIO": str(d / "scenario.json"),
                       "VP_LMOD_OUT": str(d / "lmod.out.json"), "VP_ARGV_LOG": str(d / "argv.log")})
    caller_env = dict(os.environ)
    exc, got = None, None
    try:
        with Submitter(worker="debug", environment=lmod.Environment(modules=list(case["modules"])),
                       cache_root=d / "crl") as s:
            got = json.loads(s(T(**kw)).outputs.stdout)
    except Exception as e:
        exc = e
    finally:
        os.environ.clear()
        os.environ.update(saved)
    calls = read_log(d / "argv.log")
    res["counters"]["lmod_invocations"] = len(calls)
    second = None
    if got is not None and case.get("second"):
        # the same modules again in the same process after the caller's environment changed: the overlay must be
        # computed from the environment in force at *that* submission
        os.environ.update(case["caller"])
        os.environ.update(case["second"])
        os.environ.update({"MODULESHOME": str(home), "VP_LMOD_SCENARIO": str(d / "scenario.json"),
                           "VP_LMOD_OUT": str(d / "lmod2.out.json"), "VP_ARGV_LOG": str(d / "argv2.log")})
        caller2 = dict(os.environ)
        try:
            with Submitter(worker="debug", environment=lmod.Environment(modules=list(case["modules"])),
                           cache_root=d / "crl2") as s:
                got2 = json.loads(s(T(**{**kw, "txt": kw["txt"] + "-again"})).outputs.stdout)
            want2 = ref_env.overlay(caller2, simulate(case["modules"], caller2))
            mk2 = {k for k, _ in simulate(case["modules"], caller2)}
            second = ref_env.diff(want2, got2["env"], mk2)
            res["counters"]["second_runs_compared"] = 1
        except Exception as e:
            second = [{"kind": "second-run-failed", "exception": env.short_tb(e)}]
        finally:
            os.environ.clear()
            os.environ.update(saved)
    if got is None:
        if not calls:
            return {**res, "verdict": "inconclusive", "why": "lmod never invoked: " + env.short_tb(exc)}
        return {**res, "verdict": "violated", "mech": None, "nontrivial": True,
                "witness": {"why": "task failed in the Lmod environment", "exception": env.short_tb(exc)}}
    assigned = [tuple(x) for x in json.loads((d / "lmod.out.json").read_text())]
    mkeys = {k for k, _ in assigned}
    expected = ref_env.overlay(caller_env, assigned)
    bad = ref_env.diff(expected, got["env"], mkeys)
    overridden = [k for k in mkeys if k in caller_env]
    res["nontrivial"] = len(mkeys) >= 2 and len(caller_env) > len(mkeys)
    res["counters"].update({"processes_observed": 1, "env_vars_compared": len(expected),
                            "module_vars": len(mkeys), "module_vars_overriding_caller": len(overridden)})
    res["distinct"]["module_output_shape"] = [f"{case['quote']}{case['eq']}{len(mkeys)}/{len(overridden)}"]
    res["obs"] = {"lmod_argv": calls, "n_env_seen": len(got["env"]), "argv": got["argv"]}
    if calls != [["lmod", "python", "load", *case["modules"]]]:
        bad.append({"kind": "lmod-call", "got": calls})
    if got["argv"] != nat["argv"]:
        bad.append({"kind": "argv", "got": got["argv"], "want": nat["argv"]})
    if second and not bad:
        return {**res, "verdict": "violated", "mech": None,
                "witness": {"why": "second run in the same process (caller environment changed in between) did not get "
                                   "the caller's current environment overlaid with the module settings",
                            "changed": case["second"], "bad": second[:6], "n_bad": len(second)}}
    if not bad:
        return {**res, "verdict": "held"}
    # one verdict per mechanism family, so that one known mechanism never hides another
    dropped = [b for b in bad if b["kind"] == "caller-var-dropped"]
    rest = [b for b in bad if b["kind"] != "caller-var-dropped"]
    out = []
    common = {"lmod_printed": assigned, "caller_only": sorted(set(caller_env) - mkeys)[:8]}
    if dropped:
        # mechanism: every caller variable the modules do not touch is missing, none survived
        untouched = set(caller_env) - mkeys
        mech = "env-not-inherited" if {b["var"] for b in dropped} == untouched else None
        out.append({**res, "verdict": "violated", "mech": mech,
                    "witness": {"bad": dropped[:6], "n_bad": len(dropped), "kinds": ["caller-var-dropped"], **common}})
    if rest:
        kinds = sorted({b["kind"] for b in rest})
        mech = ("quote-truncation" if kinds == ["module-var-wrong"]
                and all(_cut_at_quote(b["got"], b["want"]) for b in rest) else None)
        out.append({**res, "counters": {}, "verdict": "violated", "mech": mech,
                    "witness": {"bad": rest[:6], "n_bad": len(rest), "kinds": kinds, **common}})
    return out[0] if len(out) == 1 else {"multi": out}


def _cut_at_quote(got, want):
    return len(got) < len(want) and want.startswith(got) and want[len(got)] in "'\""


def batch(case, wctx):
    out = []
    for c in case["cases"]:
        r = run_case(c, wctx)
        out.extend(r["multi"] if "multi" in r else [r])
    return {"multi": out}


def run(ctx):
    quick = ctx.tier == "quick"
    n = 64 if quick else 1500
    n = int(os.environ.get("VP_DEV_N") or n)  # development aid: a prefix of the same case sequence
    rng = ctx.rng("gen")
    cases = [gen_case(rng, i, rich=True) for i in range(n)]
    per = 4 if quick else 40
    ctx.rule = ("generated caller environments (5-15 extra variables on top of the harness environment, some also "
                "set by the modules) x 1-3 modules with 1-4 set / PATH-style prepend operations, both quote styles, "
                "values with '=', ':', blanks and the other quote character; each task run natively and under Lmod "
                "with the fake lmod; non-trivial = >=2 module variables and caller variables the modules do not "
                "touch; distinct = distinct generated case")
    results = ctx.pmap("vp.props.c39:batch", [{"cases": cases[i:i + per]} for i in range(0, n, per)],
                       nproc=int(os.environ.get("VP_NPROC") or (8 if quick else 16)), timeout=300 if quick else 7200)
    hist = {}
    for b in results:
        for r in b.get("multi", [b]):
            if r.get("verdict") == "violated":
                k = f"{r.get('mech')}|" + ",".join((r.get("witness") or {}).get("kinds", ["?"]))
                hist[k] = hist.get(k, 0) + 1
    ctx.extra["violation_kinds"] = hist
    ctx.record_all(results)
    ctx.assumptions = ["Lmod is simulated at the process boundary by a fake $MODULESHOME/libexec/lmod; the caller's "
                       "environment is os.environ of the submitting process at submission time"]


def replay(ctx, rep):
    from vp.worker import WCtx
    r = run_case(rep["case"], WCtx(ctx.scratch, ctx.seed, ctx.prop, ctx.tier))
    rs = r["multi"] if "multi" in r else [r]
    print(env.jdump([{k: x.get(k) for k in ("verdict", "mech", "witness", "why")} for x in rs], indent=1))
    vs = {x["verdict"] for x in rs}
    return 1 if "violated" in vs else (2 if "inconclusive" in vs else 0)
