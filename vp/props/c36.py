"""C36 — provenance records are complete and consistent.

Workload: a pool of programs (succeeding / failing python task, python task with a File input,
succeeding / failing shell task, 2-3 node chains with an optional failing node, a nested
workflow, split tasks with an optional failing element), run through a real Submitter with
audit_flags in {PROV, ALL}, a FileMessenger writing into a per-case message_dir, workers
{debug, cf}, optionally submitted a second time on the same cache (cached: nothing is executed,
nothing may be recorded).
Observed: (a) the JSON-LD files written by FileMessenger, (b) an independent trace of executed
jobs: pre_run_task / post_run_task hooks on every job (top level, split wrapper and workflow
nodes) append to the multi-process event log; post_run_task also notes the result's errored flag.
Oracle: N = number of hook-observed executions.  Job activities = '@id's that carry a record of
'@type' job with 'startedAtTime'.  Required: exactly N job activities; each has exactly one
start and exactly one end record ('endedAtTime' + 'errored'); no end record for an unknown
activity; the multiset of 'errored' flags equals the multiset of result flags seen by the hooks,
and (when every activity is well-formed) the end record of the activity id the hook saw on the
job has that job's flag.  Monitor activities ('@type' monitor, ALL flag) are not job activities.
MAY class (statement silent): the records agree with what happened, but switching auditing on made
a program from the succeeding part of the pool fail (its nodes never ran) — counted as
`auditing_broke_the_program`, not a violation of record consistency.
The combination cf worker + ALL + workflow-like program is known to spin forever; it runs in a
child process under a watchdog (one case in quick, three in thorough) and a run that started the
workflow job, emitted its start record and then never started a node is reported as a violation
(mechanism resource-monitor-unpicklable); any other watchdog expiry is inconclusive.
"""
from __future__ import annotations

import json
import os
from collections import Counter
from pathlib import Path

from vp import env, evlog

LEVEL = "exploration"
NESTED = ("chain", "chain_fail", "nested", "split", "split_fail")
OK_PROGRAMS = ("py_ok", "py_file", "sh_ok", "chain", "nested", "split")
PROGRAMS = ["py_ok", "py_fail", "py_file", "sh_ok", "sh_fail", "chain", "chain_fail", "nested", "split", "split_fail"]


def _P():
    from vp import audit_programs
    return audit_programs


def make_task(case, scratch: Path):
    p, tok = case["program"], case["token"]
    if p == "py_ok":
        return _P().F(a=tok)
    if p == "py_fail":
        return _P().F(a=tok, fail=True)
    if p == "py_file":
        f = scratch / f"in_{tok}.txt"
        f.write_text("data " + tok)
        return _P().Cat(f=f, tag=tok)
    if p == "sh_ok":
        return _P().Sh(text=tok)
    if p == "sh_fail":
        return _P().Sh(executable="false", text=tok)
    if p == "chain":
        return _P().Chain(x=tok, n=case["n"], fail_at=9)
    if p == "chain_fail":
        return _P().Chain(x=tok, n=case["n"], fail_at=case["fail_at"])
    if p == "nested":
        return _P().Nested(x=tok)
    if p == "split":
        return _P().F(e=tok).split(a=[f"{tok}{i}" for i in range(case["n"])])
    if p == "split_fail":
        fl = [i == case["fail_at"] for i in range(case["n"])]
        return _P().F(e=tok).split(("a", "fail"), a=[f"{tok}{i}" for i in range(case["n"])], fail=fl)
    raise ValueError(p)


# ------------------------------------------------------------------------------------------
# observation + oracle
# ------------------------------------------------------------------------------------------

def read_messages(mdir: Path):
    recs, junk = [], 0
    for f in sorted(mdir.glob("*.jsonld")) if mdir.exists() else []:
        try:
            recs.append(json.loads(f.read_text()))
        except ValueError:
            junk += 1
    return recs, junk


def analyse(recs):
    acts = {}
    for m in recs:
        i = m.get("@id")
        if i is None:
            continue
        a = acts.setdefault(i, {"starts": 0, "ends": [], "type": set(), "n": 0})
        a["n"] += 1
        if "@type" in m:
            a["type"].add(m["@type"])
        if "startedAtTime" in m and m.get("@type") == "job":
            a["starts"] += 1
        if "endedAtTime" in m and "errored" in m:
            a["ends"].append(bool(m["errored"]))
    return acts


def judge(case, n_exec, ends_seen, recs, junk):
    bad = []
    acts = analyse(recs)
    jobs = {i: a for i, a in acts.items() if a["starts"]}
    orphans = {i: a for i, a in acts.items() if not a["starts"] and a["ends"]}
    if junk:
        bad.append({"why": "unparsable-message", "n": junk})
    if len(jobs) != n_exec:
        bad.append({"why": "activity-count", "activities": len(jobs), "executed_jobs": n_exec})
    for i, a in jobs.items():
        if a["starts"] != 1:
            bad.append({"why": "start-count", "id": i, "starts": a["starts"]})
        if len(a["ends"]) == 0:
            bad.append({"why": "missing-end", "id": i})
        elif len(a["ends"]) > 1:
            bad.append({"why": "extra-end", "id": i, "ends": a["ends"]})
    for i, a in orphans.items():
        bad.append({"why": "end-without-start", "id": i, "ends": a["ends"]})
    flags = Counter(f for a in acts.values() for f in a["ends"])
    want = Counter(e["errored"] for e in ends_seen)
    if flags != want:
        bad.append({"why": "errored-flags", "records": dict(flags), "results": dict(want)})
    if not bad:
        for e in ends_seen:
            a = jobs.get(e.get("aid"))
            if a is None:
                bad.append({"why": "job-activity-unknown", "job": e["name"], "aid": e.get("aid")})
            elif a["ends"] != [e["errored"]]:
                bad.append({"why": "errored-mismatch", "job": e["name"], "record": a["ends"], "result": e["errored"]})
    return bad, acts, jobs


def classify(case, bad, n_exec, recs):
    """shared-audit-aid: jobs nested in one process share the submitter's Audit object, so an inner job's
    start overwrites `aid` before the outer job ends: the outer activity gets no end, an inner one gets two,
    while the totals (starts = ends = executions) and the flags are right."""
    whys = Counter(b["why"] for b in bad)
    # jobs that run inside one process and therefore share the Submitter's Audit object: every nested
    # program under the debug worker; under cf only workflow-in-workflow (both run in the submitting process)
    nested = case["program"] in NESTED if case["worker"] == "debug" else case["program"] == "nested"
    if nested and set(whys) == {"missing-end", "extra-end"}:
        acts = analyse(recs)
        starts = sum(a["starts"] for a in acts.values())
        ends = sum(len(a["ends"]) for a in acts.values())
        if starts == ends == n_exec and whys["missing-end"] >= 1:
            return "shared-audit-aid"
    return None


def decide(case, wctx):
    from pydra.engine.submitter import Submitter
    from pydra.engine.workflow import Workflow
    from pydra.utils.messenger import AuditFlag, FileMessenger
    r = {"case": case, "sig": env.sig_of(case), "counters": {}, "distinct": {}}
    scratch = wctx.fresh_dir("c")
    cache, mdir, log = scratch / "cache", scratch / "messages", scratch / "events.log"
    evlog.start(log)
    Workflow.clear_cache()
    flags = {"PROV": AuditFlag.PROV, "ALL": AuditFlag.ALL}[case["flags"]]
    kw = {"n_procs": 2} if case["worker"] == "cf" else {}
    errs = []
    for rep in range(2 if case.get("twice") else 1):
        task = make_task(case, scratch)
        try:
            with Submitter(worker=case["worker"], cache_root=cache, audit_flags=flags, messengers=FileMessenger(),
                           messenger_args={"message_dir": str(mdir)}, **kw) as sub:
                res = sub(task, raise_errors=False, hooks=_P().HOOKS)
            errs.append(bool(res.errored))
        except Exception as e:
            errs.append(f"{type(e).__name__}: {str(e)[:200]}")
    ev = evlog.read(log)
    started = [e for e in ev if e["ev"] == "job_start"]
    ended = [e for e in ev if e["ev"] == "job_end"]
    bodies = [e for e in ev if e["ev"] == "start"]
    recs, junk = read_messages(mdir)
    n_exec = len(started)
    r["counters"] = {"executed_jobs": n_exec, "body_starts": len(bodies), "messages": len(recs),
                     "worker_" + case["worker"]: 1, "flags_" + case["flags"]: 1,
                     "failing_jobs": sum(1 for e in ended if e["errored"])}
    r["distinct"] = {"program_x_config": [f"{case['program']}/{case['flags']}/{case['worker']}"]}
    r["obs"] = {"executed": [e["name"] for e in started], "results": [[e["name"], e["errored"]] for e in ended],
                "messages": len(recs), "submit": errs}
    if n_exec == 0 or len(ended) != n_exec:
        r["verdict"] = "inconclusive"
        r["why"] = f"hook trace incomplete: {n_exec} starts, {len(ended)} ends, submit={errs}"
        return r
    bad, acts, jobs = judge(case, n_exec, ended, recs, junk)
    r["counters"]["job_activities"] = len(jobs)
    r["counters"]["monitor_activities"] = sum(1 for a in acts.values() if "monitor" in a["type"])
    r["nontrivial"] = len(recs) >= 2
    if bad:
        r["verdict"] = "violated"
        r["mech"] = classify(case, bad, n_exec, recs)
        r["witness"] = {"violations": bad[:6], "executed": r["obs"]["executed"],
                        "activities": {i: {"starts": a["starts"], "ends": a["ends"]} for i, a in list(jobs.items())[:8]}}
    elif case["program"] in OK_PROGRAMS and any(e["errored"] for e in ended):
        # records are consistent with what happened, but switching auditing on made a correct program fail
        # (its nodes never ran).  The statement is about the records only -> MAY class, counted.
        r["verdict"] = "may"
        r["counters"]["auditing_broke_the_program"] = 1
    else:
        r["verdict"] = "held"
    return r


def hazardous(case):
    """cf worker + RESOURCE monitoring + a workflow-like program: known to spin forever (see
    resource-monitor-unpicklable); such cases run in a child process under a watchdog"""
    return case["worker"] == "cf" and case["flags"] == "ALL" and case["program"] in NESTED


def decide_isolated(case, wctx, timeout):
    import signal
    import subprocess
    import sys
    scratch = wctx.fresh_dir("iso")
    code = ("import sys, json; sys.path.insert(0, %r); from vp import env; env.bind(%r); "
            "from vp.props import c36; from vp.worker import WCtx; "
            "r = c36.decide(json.loads(sys.argv[1]), WCtx(%r, %d, 'C36', %r)); "
            "open(%r, 'w').write(env.jdump(r))") % (str(env.VERIF), str(scratch), str(scratch), wctx.seed, wctx.tier,
                                                    str(scratch / "result.json"))
    p = subprocess.Popen([sys.executable, "-c", code, json.dumps(case)], cwd=str(env.VERIF), start_new_session=True,
                         stdout=subprocess.DEVNULL, stderr=subprocess.DEVNULL)
    try:
        p.wait(timeout=timeout)
    except subprocess.TimeoutExpired:
        pass
    finally:
        try:
            os.killpg(p.pid, signal.SIGKILL)
        except OSError:
            pass
        p.wait()
    if (scratch / "result.json").exists():
        return json.loads((scratch / "result.json").read_text())
    # watchdog fired: describe what was left behind
    ev = evlog.read(scratch / "c1" / "events.log")
    recs, _ = read_messages(scratch / "c1" / "messages")
    acts = analyse(recs)
    started = [e["name"] for e in ev if e["ev"] == "job_start"]
    open_acts = [i for i, a in acts.items() if a["starts"] and not a["ends"]]
    r = {"case": case, "sig": env.sig_of(case), "nontrivial": True,
         "counters": {"watchdog_fired": 1, "executed_jobs": len(started), "messages": len(recs)},
         "obs": {"executed": started, "open_activities": len(open_acts), "timeout_s": timeout}}
    if started == ["main"] and open_acts and hazardous(case):
        r["verdict"] = "violated"
        r["mech"] = "resource-monitor-unpicklable"
        r["witness"] = {"violations": [{"why": "never-ends", "started_jobs": started, "open_activities": open_acts,
                                        "timeout_s": timeout}]}
    else:
        r["verdict"] = "inconclusive"
        r["why"] = f"watchdog fired after {timeout}s; started={started}"
    return r


def case_batch(case, wctx):
    out = []
    for c in case["cases"]:
        try:
            if hazardous(c):
                out.append(decide_isolated(c, wctx, 40 if wctx.tier == "quick" else 90))
                continue
            out.append(decide(c, wctx))
        except Exception as e:
            out.append({"verdict": "inconclusive", "case": c, "why": "harness exception: " + env.short_tb(e)})
    return {"multi": out}


def gen_cases(rng, n, cf_share):
    cases = []
    for i in range(n):
        p = PROGRAMS[i % len(PROGRAMS)]
        c = {"program": p, "token": f"t{i}", "flags": rng.choice(["PROV", "ALL"]),
             "worker": "cf" if rng.random() < cf_share else "debug", "twice": rng.random() < 0.25}
        if p in ("chain", "chain_fail", "split", "split_fail"):
            c["n"] = rng.randint(2, 3)
        if p in ("chain_fail", "split_fail"):
            c["fail_at"] = rng.randrange(c["n"])
        cases.append(c)
    return cases


def run(ctx):
    quick = ctx.tier == "quick"
    rng = ctx.rng("gen")
    cases = gen_cases(rng, 40 if quick else 600, 0.15 if quick else 0.25)
    # the watchdog-guarded combination costs its full timeout: keep one (quick) / three (thorough) of them
    keep = 1 if quick else 3
    for c in cases:
        if hazardous(c):
            if keep > 0:
                keep -= 1
            else:
                c["flags"] = "PROV"
    if keep == (1 if quick else 3):
        cases[5].update(worker="cf", flags="ALL")
    cases.sort(key=lambda c: (not hazardous(c), c["worker"] != "cf"))  # slow ones first, spread over workers
    nb = 20 if quick else 32  # slow cases are dealt round-robin so that every worker gets its share
    batches = [{"cases": cases[i::nb]} for i in range(nb)]
    ctx.rule = ("programs from a pool of 10 (ok/failing python, python with File input, ok/failing shell, 2-3 node chain, "
                "chain with a failing node, nested workflow, split, split with a failing element) x {PROV, ALL} x "
                "{debug, cf} x {once, resubmitted on the same cache}; non-trivial = at least 2 messages were written "
                "and the hook trace saw at least one executed job; distinct = distinct generated case")
    res = ctx.pmap("vp.props.c36:case_batch", batches,
                   nproc=10 if quick else 16, timeout=900 if quick else 3300)
    ctx.record_all(res)
    ctx.assumptions = ["executed jobs are counted by pre/post_run_task hooks attached to every job of the program; "
                       "the activity id a job used is read from job.audit.aid in post_run_task (observation only)"]


def replay(ctx, rep):
    from vp.worker import WCtx
    r = decide(rep["case"], WCtx(ctx.scratch, ctx.seed, ctx.prop, ctx.tier))
    print(env.jdump(r, indent=1))
    return 1 if r["verdict"] == "violated" else 0
