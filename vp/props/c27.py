"""C27 — Docker/Singularity environments run the native argv with remapped, bind-mounted paths.

Observation (real process boundary): a fake `docker`/`singularity` first on PATH logs the
argv it was exec'ed with; the *native* argv of the same task is what `dumpenv` prints when the
task runs under the native environment.  In exec mode the fake runtime simulates the bind
mounts (translates arguments under a mount target back to the mount source, chdir to the
translated work dir) and runs the inner command, so a second, end-to-end observation is the
argv/cwd/file readability seen *inside* the simulated container.
Oracle: vp.ref_mount (mount-table model from the statement).
MAY: mounts beyond the needed ones with a consistent target (statement silent).
Mechanisms: `mount-resplit` (mount argument broken at whitespace), `list-file-crash`
(list-of-file input is taken for a single file set in get_bindings -> AttributeError).
"""
from __future__ import annotations

import json
import os
from pathlib import Path

from vp import env, ref_mount as RM

LEVEL = "exploration"
FAKES = env.VERIF / "vp" / "fakes"
DUMP = str(FAKES / "dumpenv")
_T = {}


def tasks():
    if _T:
        return _T
    from fileformats.generic import File
    from pydra.compose import shell
    cp = File.CopyMode.copy
    _T["A"] = shell.define(DUMP, inputs=[
        shell.arg(name="ro", type=File | None, default=None, argstr="--ro", position=1),
        shell.arg(name="cp", type=File | None, default=None, argstr="", position=2, copy_mode=cp),
        shell.arg(name="eq", type=File | None, default=None, argstr="--in={eq}", position=3),
        shell.arg(name="lst", type=list[File] | None, default=None, argstr="-l...", position=4),
        shell.arg(name="lcp", type=list[File] | None, default=None, argstr="", position=5, copy_mode=cp),
        shell.arg(name="txt", type=str, default="t", argstr="--txt={txt}", position=6),
    ], outputs=[
        shell.outarg(name="out", type=File, path_template="{txt}_out.txt", argstr="-o", position=7),
    ])
    _T["B"] = shell.define(DUMP, inputs=[
        shell.arg(name="man", type=File, argstr="", position=1),
        shell.arg(name="ro", type=File | None, default=None, argstr="-r", position=2),
        shell.arg(name="cp", type=File | None, default=None, argstr="-c", position=3, copy_mode=cp),
        shell.arg(name="lst", type=list[File], default=(), argstr="", position=4),
        shell.arg(name="txt", type=str, default="t", argstr="-t", position=5),
    ])
    return _T


DIRS = ["d1", "d2", "d1/sub", "d1/sub/deep", "d3"]
SPACED = ["sp ace", "d1/s p", "two  sp"]
ROOTS = ["/mnt/pydra", "/r/", "/c"]
XARGS = [[], "--rm", "--rm -u 1000", ["--env", "A=b c"], ["--net", "none"]]


def gen_case(rng, i, spaces_p, allow_list=True):
    dirs = rng.sample(DIRS, rng.randint(1, 4))
    if rng.random() < spaces_p:
        dirs.append(rng.choice(SPACED))
    task = rng.choice("AAB")
    n = [0]

    def f(nospace=False):
        n[0] += 1
        dd = [x for x in dirs if " " not in x] if nospace else dirs
        return f"{rng.choice(dd)}/f{n[0]}{rng.choice(['.txt', '.dat', ''])}"
    inp = {}
    names = {"A": ["ro", "cp", "eq", "lst", "lcp"], "B": ["ro", "cp", "lst"]}[task]
    if task == "B":
        inp["man"] = f()
    for nm in names:
        if rng.random() < (0.25 if nm in ('lst', 'lcp') else 0.55):
            if nm in ("lst", "lcp"):
                if allow_list or rng.random() < 0.5:
                    inp[nm] = [f() for _ in range(rng.randint(1, 3))]
            else:
                # a formatted argstr (--in={eq}) is split at blanks by the native argv builder itself (C22's
                # business): no blanks there, so the native argv stays a usable reference
                inp[nm] = f(nospace=nm == "eq")
    if not any(k != "txt" for k in inp):
        inp["ro"] = f()
    if rng.random() < 0.15:
        # a (read-only) input that lives directly in the cache root of the container run: the cache root must
        # still be mounted read-write
        n[0] += 1
        inp["ro"] = f"@crc/f{n[0]}.txt"
    inp["txt"] = rng.choice(["t", "zz", "a.b", "k=v"])
    return {"i": i, "task": task, "inputs": inp, "runtime": rng.choice(["docker", "singularity"]),
            "root": rng.choice(ROOTS), "xargs": rng.choice(XARGS), "tag": rng.choice(["latest", "1.2"]),
            "exec": rng.random() < 0.8 or task == "A"}


def _mk_inputs(base, inp):
    kw = {}
    for k, v in inp.items():
        if k == "txt":
            kw[k] = v
            continue
        vals = v if isinstance(v, list) else [v]
        ps = []
        for rel in vals:
            p = (Path(base).parent / "crc" / rel[5:]) if rel.startswith("@crc/") else Path(base) / rel
            p.parent.mkdir(parents=True, exist_ok=True)
            p.write_text(rel)
            ps.append(str(p))
        kw[k] = ps if isinstance(v, list) else ps[0]
    return kw


def run_case(case, wctx):
    from pydra.engine.submitter import Submitter
    from pydra.environments import docker, singularity, native
    from vp.fakes._log import read_log
    T = tasks()[case["task"]]
    d = wctx.fresh_dir("c")
    base, ncr, ccr, bindir, log = d / "in", d / "crn", d / "crc", d / "bin", d / "argv.log"
    bindir.mkdir()
    for rt in ("docker", "singularity"):
        os.symlink(FAKES / "container_rt", bindir / rt)
    kw = _mk_inputs(base, case["inputs"])
    res = {"case": case, "sig": env.sig_of({k: v for k, v in case.items() if k != "i"}),
           "counters": {"cases": 1}, "distinct": {}}
    # --- native run: the reference argv, as received by the real process ---------------------
    try:
        with Submitter(worker="debug", environment=native.Environment(), cache_root=ncr) as s:
            r = s(T(**kw))
        nat = json.loads(r.outputs.stdout)
    except Exception as e:
        return {**res, "verdict": "inconclusive", "why": "native run failed: " + env.short_tb(e)}
    native_argv, jobname = nat["argv"], Path(nat["cwd"]).name
    res["counters"]["native_runs"] = 1
    # --- container run with the fake runtime first on PATH -----------------------------------
    image = f"img{case['i'] % 7}"
    E = {"docker": docker, "singularity": singularity}[case["runtime"]].Environment(
        image=image, tag=case["tag"], root=case["root"], xargs=case["xargs"])
    saved = {k: os.environ.get(k) for k in ("PATH", "VP_ARGV_LOG", "VP_RT_IMAGE", "VP_RT_EXEC")}
    os.environ.update({"PATH": f"{bindir}:{saved['PATH']}", "VP_ARGV_LOG": str(log),
                       "VP_RT_IMAGE": f"{image}:{case['tag']}", "VP_RT_EXEC": "1" if case["exec"] else "0"})
    exc, inner = None, None
    try:
        with Submitter(worker="debug", environment=E, cache_root=ccr) as s:
            r = s(T(**kw))
        if case["exec"]:
            inner = json.loads(r.outputs.stdout)
    except Exception as e:
        exc = e
    finally:
        for k, v in saved.items():
            os.environ.pop(k, None) if v is None else os.environ.__setitem__(k, v)
    recs = read_log(log)
    res["counters"]["runtime_argv_captured"] = len(recs)
    xargs = case["xargs"].split() if isinstance(case["xargs"], str) else list(case["xargs"])
    hosts = [p for k, v in kw.items() if k != "txt" for p in (v if isinstance(v, list) else [v])]
    tail, need = RM.model(native_argv, case["root"], hosts, str(ncr), str(ccr))
    jobdir = str(ccr / jobname)
    npaths = sum(1 for a in tail[1:] if RM.split_arg(a)[1] is not None and a not in native_argv)
    res["nontrivial"] = npaths >= 1
    res["counters"]["remapped_paths"] = npaths
    res["distinct"]["mount_table_shape"] = [f"{case['runtime']}:{sorted(need.values())}"]
    has_list = any(isinstance(v, list) and v for v in case["inputs"].values())
    if not recs:
        if exc is None:
            return {**res, "verdict": "inconclusive", "why": "runtime never invoked, no exception"}
        tb = env.short_tb(exc, 8)
        mech = ("list-file-crash" if isinstance(exc, AttributeError) and "map_path" in tb
                and "'list' object has no attribute 'parent'" in tb and has_list else None)
        return {**res, "verdict": "violated", "mech": mech, "obs": {"exception": tb[-400:]},
                "witness": {"why": "container environment raised before the runtime was invoked",
                            "exception": tb, "native_argv": native_argv}}
    if len(recs) != 1:
        return {**res, "verdict": "violated", "mech": None,
                "witness": {"why": "runtime invoked more than once", "argvs": recs}}
    obs = RM.parse(recs[0], case["runtime"], xargs, f"{image}:{case['tag']}")
    res["obs"] = {"runtime_argv": recs[0], "native_argv": native_argv}
    if "error" in obs:
        bad = [obs]
        mid = recs[0]
    else:
        bad = RM.compare(obs, tail, need, case["root"], jobdir)
        mid = obs["mid"]
        res["counters"]["mounts_checked"] = len(obs["mounts"])
        extra = [m for m in obs["mounts"] if RM.norm(m.split(":")[0]) not in need
                 and RM.norm(m.split(":")[0]) != jobdir]
        if extra:
            res["counters"]["extra_mounts_may"] = len(extra)
    # end-to-end view through the simulated mounts
    if not bad and case["exec"] and any(" " in h for h in hosts):
        # the native argv builder itself breaks such a path into pieces (no file of that name natively
        # either), so there is nothing to resolve through the simulated mounts: argv-level check only
        res["counters"]["inner_skipped_blank_in_path"] = 1
    elif not bad and case["exec"]:
        if inner is None:
            bad.append({"kind": "inner-run-failed", "exception": env.short_tb(exc) if exc else None})
        else:
            want = [a.replace(str(ncr), str(ccr)) for a in native_argv]
            if [RM._n(a) for a in inner["argv"]] != [RM._n(a) for a in want]:
                bad.append({"kind": "inner-argv", "got": inner["argv"], "want": want})
            if RM.norm(inner["cwd"]) != RM.norm(jobdir):
                bad.append({"kind": "inner-cwd", "got": inner["cwd"], "want": jobdir})
            unread = [p for p, v in inner["readable"].items() if v is None and not p.endswith("_out.txt")]
            if unread:
                bad.append({"kind": "inner-unreadable", "paths": unread})
            res["counters"]["inner_runs_checked"] = 1
    if not bad:
        return {**res, "verdict": "held"}
    mech = None
    if RM.resplit_signature(mid, need, case["root"], RM.FLAGS[case["runtime"]][1]):
        mech = "mount-resplit"
    return {**res, "verdict": "violated", "mech": mech,
            "witness": {"bad": bad[:4], "runtime_argv": recs[0], "native_argv": native_argv,
                        "needed_mounts": need, "exception": env.short_tb(exc) if exc else None}}


def batch(case, wctx):
    return {"multi": [run_case(c, wctx) for c in case["cases"]]}


def run(ctx):
    quick = ctx.tier == "quick"
    n = 96 if quick else 1500
    n = int(os.environ.get("VP_DEV_N") or n)  # development aid: a prefix of the same case sequence
    rng = ctx.rng("gen")
    cases = [gen_case(rng, i, 0.12 if quick else 0.2, allow_list=True) for i in range(n)]
    per = 4 if quick else 40
    batches = [{"cases": cases[i:i + per]} for i in range(0, n, per)]
    ctx.rule = ("generated shell tasks (2 definitions: File / list[File] / optional / copy-mode inputs, "
                "--opt=PATH and flag forms, output template) with files spread over 1-5 directories (shared "
                "parents, nesting, names with spaces) x runtime x root x xargs x tag; each run natively and "
                "under the fake runtime; non-trivial = at least one host path remapped in the argv; "
                "distinct = distinct generated case")
    results = ctx.pmap("vp.props.c27:batch", batches, nproc=int(os.environ.get("VP_NPROC") or (8 if quick else 16)),
                       timeout=300 if quick else 7200)
    hist = {}
    for b in results:
        for r in b.get("multi", [b]):
            if r.get("verdict") == "violated":
                w = r.get("witness") or {}
                k = f"{r.get('mech')}|" + ",".join(sorted({x.get('kind', x.get('error', '?')) for x in w.get('bad', [])})
                                                   or [w.get("why", "?")])
                hist[k] = hist.get(k, 0) + 1
    ctx.extra["violation_kinds"] = hist
    ctx.record_all(results)
    ctx.assumptions = ["docker/singularity are simulated at the process boundary (fake executables logging argv); "
                       "paths compared up to duplicate slashes; extra consistent mounts are MAY"]


def replay(ctx, rep):
    from vp.worker import WCtx
    r = run_case(rep["case"], WCtx(ctx.scratch, ctx.seed, ctx.prop, ctx.tier))
    print(env.jdump({k: r.get(k) for k in ("verdict", "mech", "witness", "why")}, indent=1))
    return 1 if r["verdict"] == "violated" else (2 if r["verdict"] == "inconclusive" else 0)
