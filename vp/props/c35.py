"""C35 — job lifecycle leaves the process and cache directory consistent.   (fault_enumeration)

Fault points are enumerated from the running tree: a recording pass lists every LINE event on the
Job.run path; an InjectedFault is then raised immediately before each *fallible* statement
(a statement that contains a call, selected with ast; the two cleanup statements themselves —
removing the info file, restoring the cwd — are not injected), in the same process, through the
sequential worker.  Further scenarios: raising pre/post task hooks, an unpicklable return value, a
failing body, and histories of cached / uncached / rerun submissions with counting hooks.
Oracle after every run (ok / failed / interrupted):
  * os.getcwd() is what it was before the call,
  * no `<uid>_info.json` is left in the cache root,
  * a job directory that exists holds `_job.pklz` and `_result.pklz` (not required when the fault
    was injected inside the writer `save` itself or before the directory was populated),
  * body executed  =>  start hook and end hook each called exactly once;  cache hit => neither.
"""
from __future__ import annotations

import os
from collections import Counter
from pathlib import Path

from vp import env, evlog

LEVEL = "fault_enumeration"
HOOKS = Counter()


def h_pre(job, *a):
    HOOKS["pre_run_task"] += 1


def h_post(job, *a):
    HOOKS["post_run_task"] += 1


def h_pre_raise(job, *a):
    HOOKS["pre_run_task"] += 1
    raise RuntimeError("hook-boom-pre")


def h_post_raise(job, *a):
    HOOKS["post_run_task"] += 1
    raise RuntimeError("hook-boom-post")


def _tasks():
    from pydra.compose import python

    @python.define(outputs=["out"])
    def Gen(a: str):
        from vp import evlog as ev
        ev.emit("start", node="Gen", term=f"Gen({a})")
        ev.emit("end", node="Gen", term=f"Gen({a})")
        return (x for x in a)          # generators cannot be pickled
    return Gen


SPLITS = {"split3": ["x", "y", "z"], "split4": ["x", "y", "z", "w"]}


def make_task(scn):
    from vp.terms import F
    if scn == "ok":
        return F(a="x", b=["p"], tag="T")
    if scn == "fail":
        return F(a="x", tag="T", fail=True)
    if scn in SPLITS:
        # one job per element; the element "x" is the very identity of scenario "ok" (shared cache entry)
        return F(b=["p"], tag="T").split(a=SPLITS[scn])
    if scn == "gen":
        return _tasks()(a="xy")
    if scn == "shell":
        from pydra.compose import shell
        return shell.define("echo <arg:str>")(arg="hello")
    raise env.HarnessError(scn)


def snapshot_check(cache, cwd0, inside_writer, before_populate):
    problems = []
    if os.getcwd() != cwd0:
        problems.append({"why": "working directory not restored", "cwd": os.getcwd(), "expected": cwd0})
        os.chdir(cwd0)
    left = [p.name for p in Path(cache).glob("*_info.json")]
    if left:
        problems.append({"why": "transient <uid>_info.json left in the cache root", "files": left})
    for d in Path(cache).iterdir():
        if d.is_dir() and d.name not in ("pkl_files",) and not inside_writer:
            have = {p.name for p in d.iterdir()}
            miss = [n for n in ("_job.pklz", "_result.pklz") if n not in have]
            if miss:
                problems.append({"why": "job directory lacks its record/result", "dir": d.name, "missing": miss})
    return problems


def run_once(scn, cache, hooks=None, rerun=False, fp=None):
    from pydra.engine.submitter import Submitter
    from pydra.engine.hooks import TaskHooks
    from vp import failpoints
    HOOKS.clear()
    log = evlog.start(str(Path(cache).parent / f"ev-{os.path.basename(cache)}.jsonl"))
    hk = TaskHooks(pre_run_task=(hooks or {}).get("pre", h_pre), post_run_task=(hooks or {}).get("post", h_post))
    err = None
    fired = None
    task = make_task(scn)
    if fp:
        failpoints.install(fp)
    try:
        with Submitter(worker="debug", cache_root=cache) as sub:
            sub(task, hooks=hk, rerun=rerun, raise_errors=True)
    except BaseException as e:  # noqa: BLE001
        err = f"{type(e).__name__}: {str(e)[:120]}"
    finally:
        if fp:
            fired = failpoints.STATE.get("fired")
            tr = failpoints.trace()
            failpoints.STATE.pop("fired", None)
            failpoints.uninstall()
    starts = sum(1 for e in evlog.read(log) if e["ev"] == "start")
    return {"err": err, "starts": starts, "pre": HOOKS["pre_run_task"], "post": HOOKS["post_run_task"],
            "fired": fired, "trace": tr if fp and fp.get("mode") == "record" else None}


CLEANUP = ("unlink", "os.chdir")


def classify(problems, site, trace_entry):
    """cleanup-outside-finally: the fault was raised between lock acquisition and the `try`, or
    inside the `finally` before the cleanup lines (i.e. at a statement of Job.run itself or in a
    function it called from there), and the only problems are un-restored cwd / leftover info
    file / missing record or result."""
    kinds = {p["why"] for p in problems}
    allowed = {"working directory not restored", "transient <uid>_info.json left in the cache root",
               "job directory lacks its record/result"}
    if kinds <= allowed:
        return "cleanup-outside-finally"
    return None


def case_inject(case, wctx):
    scn = case["scenario"]
    cwd0 = os.getcwd()
    out = []
    rec = run_once(scn, str(wctx.fresh_dir("rec")), fp={"mode": "record"})
    tr = rec["trace"] or []
    in_run_depth = []
    points = []
    for i, (qual, rel, kind, calls) in enumerate(tr, start=1):
        if not calls or kind == "Try":     # `try:` itself cannot fail (its "calls" belong to the handlers)
            continue
        if qual == "Job.run" and any(c.endswith(CLEANUP[0]) or c == CLEANUP[1] for c in calls) and rel > 45:
            continue        # the cleanup statements themselves
        points.append((i, qual, rel, calls))
    step = case.get("step", 1)
    for (i, qual, rel, calls) in points[case.get("offset", 0)::step]:
        cache = str(wctx.fresh_dir("inj"))
        r = run_once(scn, cache, fp={"mode": "raise", "k": i})
        # a fault inside (or at the call of) the writers themselves cannot leave the record/result behind
        inside_writer = qual in ("save", "record_error") or any(c in ("save", "record_error") for c in calls)
        problems = snapshot_check(cache, cwd0, inside_writer, False)
        at_hook = any(c.endswith("post_run_task") or c.endswith("pre_run_task") for c in calls)
        if r["starts"] and not at_hook and not (r["pre"] == 1 and r["post"] == 1):
            problems.append({"why": "hooks not called exactly once for an executed body", "pre": r["pre"], "post": r["post"]})
        c = {"scenario": scn, "inject_before": f"{qual}+{rel}", "calls": calls}
        res = {"case": c, "sig": env.sig_of(c), "nontrivial": r["fired"] is not None,
               "counters": {"faults_injected": int(r["fired"] is not None), "runs": 1},
               "distinct": {"fault_sites": [f"{scn}:{qual}+{rel}"]},
               "obs": {"err": r["err"], "body_starts": r["starts"], "pre": r["pre"], "post": r["post"]}}
        if r["fired"] is None:
            res.update(verdict="inconclusive", why="fault point not reached on this run")
        elif problems:
            res.update(verdict="violated", witness={"problems": problems, "error": r["err"], "inject_before": f"{qual}+{rel}"},
                       mech=classify(problems, qual, None))
        else:
            res["verdict"] = "held"
        out.append(res)
    return {"multi": out}


def case_special(case, wctx):
    cwd0 = os.getcwd()
    kind = case["kind"]
    cache = str(wctx.fresh_dir("sp"))
    hooks = None
    scn = "ok"
    if kind == "pre_hook_raises":
        hooks = {"pre": h_pre_raise}
    elif kind == "post_hook_raises":
        hooks = {"post": h_post_raise}
    elif kind == "unpicklable_return":
        scn = "gen"
    elif kind == "failing_body":
        scn = "fail"
    elif kind == "shell_ok":
        scn = "shell"
    r = run_once(scn, cache, hooks=hooks)
    problems = snapshot_check(cache, cwd0, False, False)
    executed = r["starts"] > 0 or scn == "shell"
    if executed and kind not in ("pre_hook_raises",) and not (r["pre"] == 1 and r["post"] == 1):
        problems.append({"why": "hooks not called exactly once for an executed body", "pre": r["pre"], "post": r["post"]})
    res = {"case": case, "sig": env.sig_of(case), "nontrivial": True, "counters": {"runs": 1},
           "obs": {"err": r["err"], "body_starts": r["starts"], "pre": r["pre"], "post": r["post"]}}
    if problems:
        res.update(verdict="violated", witness={"problems": problems, "error": r["err"]}, mech=classify(problems, None, None))
    else:
        res["verdict"] = "held"
    return res


def case_interrupt(case, wctx):
    """a KeyboardInterrupt (not an Exception subclass) delivered at a statement of the execution path, then a
    plain resubmission into the same cache root: it must re-execute and return the real output, never an
    empty 'successful' result left behind by the interrupted run (also C12/C13)"""
    from pydra.engine.submitter import Submitter
    cwd0 = os.getcwd()
    cache = str(wctx.fresh_dir("int"))
    rec = run_once("ok", str(wctx.fresh_dir("rec")), fp={"mode": "record"})
    tr = rec["trace"] or []
    sites = [(i, q, rel, calls) for i, (q, rel, kind, calls) in enumerate(tr, start=1)
             if q == "Job.run" and any(c.endswith(x) for c in calls for x in case["at"])]
    if not sites:
        return {"verdict": "inconclusive", "case": case, "why": "interrupt site not on the recorded path"}
    i, q, rel, calls = sites[0]
    r1 = run_once("ok", cache, fp={"mode": "raise", "k": i, "exc": "KeyboardInterrupt"})
    problems = snapshot_check(cache, cwd0, True, False)
    out = err = None
    log = evlog.start(str(Path(cache).parent / "ev-resubmit.jsonl"))
    try:
        with Submitter(worker="debug", cache_root=cache) as sub:
            res = sub(make_task("ok"), raise_errors=True)
        out = None if res.outputs is None else res.outputs.out
    except BaseException as e:  # noqa: BLE001
        err = f"{type(e).__name__}: {str(e)[:120]}"
    starts = sum(1 for e in evlog.read(log) if e["ev"] == "start")
    if err is None and out != "T(a=x,b=[p])":
        problems.append({"why": "resubmission after an interrupted run returned a wrong/empty result from the cache",
                         "out": out, "body_starts_on_resubmission": starts})
    res = {"case": case, "sig": env.sig_of(case), "nontrivial": r1["fired"] is not None,
           "counters": {"interrupts_injected": int(r1["fired"] is not None), "runs": 2},
           "obs": {"interrupted_run_error": r1["err"], "resubmission_out": out, "resubmission_err": err, "starts": starts}}
    if r1["fired"] is None:
        res.update(verdict="inconclusive", why="interrupt point not reached")
    elif problems:
        res.update(verdict="violated", witness={"problems": problems, "interrupt_before": f"{q}+{rel}", "calls": calls},
                   mech="interrupt-saved-as-success" if all(p["why"].startswith("resubmission after") for p in problems) else None)
    else:
        res["verdict"] = "held"
    return res


def case_history(case, wctx):
    """ops: run / rerun on scenarios ok|fail|split3|split4 in one cache root; model: set of complete successful identities
    (elements of split tasks and the implicit wrapper workflow of each split task included)"""
    cwd0 = os.getcwd()
    cache = str(wctx.fresh_dir("hist"))
    done = set()
    problems = []
    steps = []
    for op in case["ops"]:
        scn, rerun = op["scenario"], op["rerun"]
        r = run_once(scn, cache, rerun=rerun)
        steps.append({"op": op, "pre": r["pre"], "post": r["post"], "starts": r["starts"], "err": r["err"]})
        if scn in SPLITS:
            # split task: one execution per element that has no complete result yet (all of them on rerun)
            elems = SPLITS[scn]
            fresh = [e for e in elems if rerun or e not in done]
            # the implicit workflow that wraps a split task is a job of its own (hooks included): it executes unless
            # its own result is complete
            wrapper = 0 if (("wf", scn) in done and not rerun) else 1
            hit = not fresh and not wrapper
            exp = (len(fresh) + wrapper, len(fresh) + wrapper)
            if r["starts"] != len(fresh):
                problems.append({"why": "split task executed the wrong number of elements", "step": len(steps) - 1,
                                 "expected": len(fresh), "got": r["starts"]})
            if r["err"] is None:
                done.update(elems)
                done.add(("wf", scn))
        else:
            hit = "x" in done and scn == "ok" and not rerun
            exp = (0, 0) if hit else (1, 1)
        if (r["pre"], r["post"]) != exp:
            problems.append({"why": "hook counts wrong for " + ("a cache hit" if hit else "an execution"), "step": len(steps) - 1,
                             "expected": exp, "got": (r["pre"], r["post"])})
        if hit and r["starts"]:
            problems.append({"why": "cache hit executed the body", "step": len(steps) - 1})
        problems += snapshot_check(cache, cwd0, False, False)
        if scn == "ok" and r["err"] is None:
            done.add("x")
    res = {"case": case, "sig": env.sig_of(case), "nontrivial": len(case["ops"]) >= 2,
           "counters": {"runs": len(steps), "histories": 1}, "obs": {"steps": steps[:4]}}
    if problems:
        res.update(verdict="violated", witness={"problems": problems[:4], "steps": steps})
    else:
        res["verdict"] = "held"
    return res


def run(ctx):
    quick = ctx.tier == "quick"
    rng = ctx.rng("gen")
    scns = ["ok", "fail"] if quick else ["ok", "fail", "shell", "gen"]
    nshard = 8
    inj = [{"scenario": s, "step": nshard, "offset": o} for s in scns for o in range(nshard)]
    ctx.record_all(ctx.pmap("vp.props.c35:case_inject", inj, nproc=16, timeout=900 if quick else 3000))
    sp = [{"kind": k} for k in ("pre_hook_raises", "post_hook_raises", "unpicklable_return", "failing_body", "shell_ok")]
    ctx.record_all(ctx.pmap("vp.props.c35:case_special", sp, nproc=5, timeout=600))
    ints = [{"at": ["_run"]}, {"at": ["_from_job"]}, {"at": ["post_run_task"]}, {"at": ["pre_run_task"]}]
    ctx.record_all(ctx.pmap("vp.props.c35:case_interrupt", ints, nproc=4, timeout=600))
    hist = []
    for i in range(24 if quick else 600):
        ops = [{"scenario": rng.choice(["ok", "ok", "fail", "split3", "split4"]), "rerun": rng.random() < 0.3}
               for _ in range(rng.randint(2, 6))]
        hist.append({"ops": ops})
    ctx.record_all(ctx.pmap("vp.props.c35:case_history", hist, nproc=12, timeout=900 if quick else 3000))
    if not quick:
        ctx.exhaustive = True
        from vp import suite
        ctx.record(suite.run_suite(ctx, ["pydra/engine/tests/test_job.py", "pydra/engine/tests/test_error_handling.py",
                                         "pydra/compose/tests/test_python_run.py", "pydra/compose/tests/test_workflow_run.py"], "job"))
    ctx.rule = ("InjectedFault before every statement-with-a-call on the recorded Job.run path (python ok / failing task; thorough: "
                "+ shell + unpicklable return) + raising hooks / unpicklable return / failing body + random histories of "
                "run/rerun of plain and split tasks (hooks counted per executed element); non-trivial = the fault really fired (injection) / >=2 steps (history); distinct = distinct "
                "(scenario, site) / history")
    ctx.assumptions = ["faults are raised at statement boundaries of Job.run, _populate_filesystem, result, save, record_error, "
                       "load_result under the sequential worker", "cleanup statements themselves are not injected"]


def replay(ctx, rep):
    from vp.worker import WCtx
    w = WCtx(ctx.scratch, ctx.seed, ctx.prop, ctx.tier)
    c = rep["case"]
    if "ops" in c:
        r = case_history(c, w)
    elif "kind" in c:
        r = case_special(c, w)
    else:
        r = case_inject({"scenario": c["scenario"]}, w)
        r = [x for x in r["multi"] if x["case"]["inject_before"] == c["inject_before"]]
    print(env.jdump(r, indent=1))
    return 0
