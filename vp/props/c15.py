"""C15 — jobs start only after the jobs they consume have succeeded; every job exactly once.

Observation: the totally ordered event log of term-valued bodies.  Because every term spells out
the terms it was computed from, the jobs a job consumes are exactly the proper sub-terms of its
term that are themselves jobs of the workflow.
Oracle over the log:  for every `start(J)` every consumed job U has `end(U)` earlier in the log;
every reference job has >=1 and <= multiplicity starts (multiplicity > 1 only for nodes that are
deliberately identical in task and inputs and may legitimately share one execution); no start
for a term that is not a reference job.
Workload: C03 graphs under the sequential loop (debug), the async loop ungated, and the async
loop with controller-chosen completion orders (vp.gated).
"""
from __future__ import annotations

import json
from collections import Counter

from vp import env, ref_wf
from vp.props import c03

LEVEL = "exploration"


def gen_case(rng, i):
    while True:
        spec = c03.gen_spec(rng, nmax=rng.choice([3, 4, 5]))
        res = ref_wf.evaluate(spec)
        n = sum(len(r.jobs) for r in res.values())
        if not ref_wf.shared_origin_nodes(spec, res) and 2 <= n <= 12:
            break
    mode = ["debug", "cf", "gated", "gated"][i % 4]
    if rng.random() < 0.2 and len(spec["nodes"]) >= 2:
        # duplicate-identity node: same tag and same inputs as an existing stateless node
        base = rng.choice(spec["nodes"])
        if not base.get("split"):
            dup = json.loads(json.dumps(base))
            dup["name"] = "DUP"
            dup["tag"] = base.get("tag", base["name"])
            spec["nodes"].insert(spec["nodes"].index(base) + 1, dup)
    if mode == "gated":
        for nd in spec["nodes"]:
            nd["gate"] = True
    return {"spec": spec, "mode": mode}


def decide(case, wctx):
    spec, mode = case["spec"], case["mode"]
    ref = ref_wf.evaluate(spec)
    want = Counter()
    for r in ref.values():
        for _, t in r.jobs:
            want[t] += 1
    order = None
    if mode == "gated":
        from vp import gated
        from vp.gen_wf import GenWF
        from pydra.engine.workflow import Workflow
        Workflow.clear_cache()
        rng = wctx.rng("o" + env.sig_of(case))
        g = gated.run_gated(GenWF(spec=json.dumps(spec, sort_keys=True)), wctx, lambda held, ev: rng.choice(held),
                            n_procs=8)
        ev, err, order = g["events"], (None if g["exc"] is None else repr(g["exc"])[:300]), g["order"]
        if g["timed_out"]:
            return {"verdict": "inconclusive", "case": case, "why": "watchdog"}
    else:
        out, err, ev = c03.run_spec(spec, wctx, worker=mode, n_procs=4)
    starts = [(i, e["term"]) for i, e in enumerate(ev) if e["ev"] == "start"]
    endpos = {}
    for i, e in enumerate(ev):
        if e["ev"] == "end":
            endpos.setdefault(e["term"], i)
    r = {"case": case, "sig": env.sig_of(case), "nontrivial": sum(want.values()) >= 3,
         "counters": {"events": len(ev), "body_starts": len(starts), "mode_" + mode: 1, "order_pairs_checked": 0},
         "distinct": {"log_orders": [env.sig_of([t for _, t in starts])]},
         "obs": {"mode": mode, "jobs": sum(want.values()), "starts": len(starts), "err": err,
                 "release_order": order[:8] if order else None}}
    if err is not None:
        r["verdict"] = "violated"
        r["witness"] = {"why": "valid workflow failed", "error": err}
        return r
    problems = []
    got = Counter(t for _, t in starts)
    for t, m in want.items():
        if not (1 <= got.get(t, 0) <= m):
            problems.append({"why": "job not executed exactly once", "term": t, "starts": got.get(t, 0), "multiplicity": m})
    for t in got:
        if t not in want:
            problems.append({"why": "unexpected job executed", "term": t})
    jobs = list(want)
    pairs = 0
    for p, t in starts:
        for u in jobs:
            if u != t and u in t:
                pairs += 1
                if u not in endpos or endpos[u] > p:
                    problems.append({"why": "job started before a job it consumes had completed", "job": t, "consumed": u,
                                     "start_pos": p, "end_pos": endpos.get(u)})
    r["counters"]["order_pairs_checked"] = pairs
    if problems:
        r["verdict"] = "violated"
        r["witness"] = {"problems": problems[:6], "log": [[e["ev"], e["term"]] for e in ev[:40]], "release_order": order}
    else:
        r["verdict"] = "held"
    return r


def case_one(case, wctx):
    return decide(case, wctx)


def run(ctx):
    quick = ctx.tier == "quick"
    rng = ctx.rng("gen")
    cases = [gen_case(rng, i) for i in range(48 if quick else 300)]
    ctx.rule = ("C03 graphs (no shared-origin fan-in, 2-12 jobs, 20% with a duplicate-identity node) under debug / cf / gated cf "
                "with random release orders; non-trivial = >=3 jobs; distinct = distinct (spec, mode)")
    ctx.record_all(ctx.pmap("vp.props.c15:case_one", cases, nproc=6, timeout=1500 if quick else 3400))


def replay(ctx, rep):
    from vp.worker import WCtx
    r = decide(rep["case"], WCtx(ctx.scratch, ctx.seed, ctx.prop, ctx.tier))
    print(env.jdump(r, indent=1))
    return 1 if r["verdict"] == "violated" else 0
