"""C20 — accepted field values conform to the declared type.

Monitor: for generated (declared type, value) pairs a real python task class with one typed input
is built (`python.define(ident, inputs={"x": T})`) and the value is assigned both ways
(`Task(x=v)` and `t.x = v`); what the field *stores* is observed.  A sample of the accepted values is
then really executed (`task(cache_root=..., worker="debug")`) to observe run-time rejections.

Oracle (vp.ref_types, independent of TypeParser), only for values the field accepted:
  * conforms(stored, T)  — element types included;
  * string integrity     — every str leaf of the stored value is a str leaf (or the fspath of a path
                           leaf) of the given value (nothing joined / rebuilt) and no given str was
                           split into its characters;
  * idempotence          — assigning the stored value again stores a deep-identical value;
  * run                  — the accepted value does not make the task fail when it runs.
Rejections (any exception raised at assignment) always hold: the statement does not say which
values must be accepted.

MAY class (statement silent; counted, never a violation): accepted coercions that change data
without touching strings (int 5 -> bool True, list -> set dedup, dict -> list of keys for
MultiInputObj, bytes -> list of ints), and constructor/setattr disagreeing on acceptance.

Run failures that do not come from type checking (no pydra/utils/typing.py frame, e.g. pydra's
hasher sorting a dict with unorderable mixed keys) are MAY here: they are not coercion rejections.

Known-finding classifiers (by mechanism; `mechanisms()` walks declared type, given and stored value
in parallel, pydra is only used to recompute the expected mangled value):
  str-as-sequence-rebuilt   declared Sequence[E]/Iterable[E], given a str, stored str([E(ch) for ch])
  bytes-as-sequence-rebuilt declared Sequence[E]/Iterable[E], given bytes, stored bytes([E(b) ...]) != given
  str-split-into-set        declared set[E]/frozenset[E], given a str, stored {E(ch) for ch}
  set-joined-into-str       declared str, given a set/frozenset, stored str(given)
  union-alternative-raises-oserror  the stored value conforms to the declared union but assigning it again
                            raises FileNotFoundError: an earlier File/Directory alternative raises a
                            non-TypeError, which escapes coerce_union instead of trying the next one
  union-coerces-before-exact-match  only idempotence fails and some union in the type changes a value
                            that already conforms to one of its alternatives
"""
from __future__ import annotations

import typing as ty

from vp import env
from vp import gen_types as G
from vp import ref_types as R

LEVEL = "exploration"


def ident(x):
    return x


class Bench:
    def __init__(self, root):
        self.root = root
        self.classes = {}

    def cls(self, spec):
        key = env.jdump(spec)
        if key not in self.classes:
            from pydra.compose import python
            self.classes[key] = python.define(ident, inputs={"x": G.to_type(spec)}, outputs={"out": ty.Any})
        return self.classes[key]


def assign(D, v, how):
    """-> (accepted, stored or exception name, detail)"""
    try:
        if how == "ctor":
            t = D(x=v)
        else:
            t = D()
            t.x = v
        return True, t.x, t
    except Exception as e:  # any exception at assignment is a rejection at assignment
        return False, type(e).__name__, str(e)[:200]


def mechanisms(spec, inp, out):
    """Walk declared type, given value and stored value in parallel and report where a known
    mechanism is visible: [(mech, given strings involved, strings it manufactured)]."""
    from pydra.utils.typing import TypeParser
    found = []

    def elems(s, items):
        el = TypeParser(G.to_type(s), superclass_auto_cast=True)
        return [el(x) for x in items]

    def walk(s, i, o):
        if isinstance(s, str):
            if s == "str" and isinstance(i, (set, frozenset)) and isinstance(o, str) and o == str(i):
                found.append(("set-joined-into-str", set(), {o}))
            return
        c, a = s[0], s[1:]
        if c in ("opt", "union"):
            for x in a:
                if x != "None":
                    walk(x, i, o)
            return
        if c in G.ABSTRACT_SEQ and isinstance(i, str) and isinstance(o, str) and i != o:
            try:
                exp = str(elems(a[0], i))
            except Exception:
                exp = None
            if exp == o:
                found.append(("str-as-sequence-rebuilt", {i}, {o}))
            return
        if c in G.ABSTRACT_SEQ and isinstance(i, bytes) and isinstance(o, bytes) and i != o:
            try:
                exp = bytes(elems(a[0], i))
            except Exception:
                exp = None
            if exp == o:
                found.append(("bytes-as-sequence-rebuilt", set(), set()))
            return
        if c in ("set", "frozenset", "Iterable") and isinstance(i, str) and isinstance(o, (set, frozenset)):
            try:
                exp = set(elems(a[0], i))
            except Exception:
                exp = None
            if exp == set(o):
                found.append(("str-split-into-set", {i}, {x for k, x in R.leaves(o) if k == "str"}))
            return
        if c == "MIO" and isinstance(o, list) and len(o) == 1:
            walk(a[0], i, o[0])
        if c in ("dict", "Mapping"):
            if isinstance(i, dict) and isinstance(o, dict) and len(i) == len(o):
                for (k1, v1), (k2, v2) in zip(i.items(), o.items()):
                    walk(a[0], k1, k2)
                    walk(a[1], v1, v2)
            elif isinstance(i, dict) and isinstance(o, dict) and len(i) * len(o) <= 36:
                # coerced keys collided (e.g. () and frozenset() -> frozenset()): try every pairing
                for k1, v1 in i.items():
                    for k2, v2 in o.items():
                        walk(a[0], k1, k2)
                        walk(a[1], v1, v2)
            return
        sized = (list, tuple, set, frozenset)
        if isinstance(i, sized) and isinstance(o, sized):
            ordered = isinstance(i, (list, tuple)) and isinstance(o, (list, tuple)) and len(i) == len(o)
            if ordered:
                if c == "tuple":
                    if len(a) == len(i):
                        for t, x, y in zip(a, i, o):
                            walk(t, x, y)
                else:
                    for x, y in zip(i, o):
                        walk(a[0], x, y)
            elif len(i) * len(o) <= 36:
                # a set is involved (or lengths differ): members cannot be aligned, try every pairing
                # (an event is only recorded when the mechanism's formula reproduces the stored value)
                for t in (a if c == "tuple" else a[:1]):
                    for x in i:
                        for y in o:
                            walk(t, x, y)

    walk(spec, inp, out)
    return found


def subvalues(v):
    yield v
    if isinstance(v, dict):
        for k, x in v.items():
            yield from subvalues(k)
            yield from subvalues(x)
    elif isinstance(v, (list, tuple, set, frozenset)):
        for x in v:
            yield from subvalues(x)


def union_recoerces(spec, stored) -> bool:
    """Some union inside the declared type changes a value that already conforms to one of its
    alternatives (an earlier alternative coerces it first)."""
    from pydra.utils.typing import TypeParser
    for u in G.subterms(spec):
        if isinstance(u, str) or u[0] not in ("union", "opt"):
            continue
        alts = u[1:] if u[0] == "union" else [u[1], "None"]
        tp = TypeParser(G.to_type(u), superclass_auto_cast=True)
        for w in subvalues(stored):
            if any(R.conforms(w, x) for x in alts):
                try:
                    if not R.deep_same(tp(w), w):
                        return True
                except Exception:
                    pass
    return False


def judge(spec, given, stored, D):
    """-> (problems, may_flags)"""
    problems, may = [], []
    if not R.conforms(stored, spec):
        problems.append({"kind": "nonconforming", "stored": repr(stored)[:200]})
    for kind, s in R.string_integrity(given, stored):
        if kind == "lost-str":
            may.append("lost-str")
        else:
            problems.append({"kind": kind, "str": s})
    ok2, again, _ = assign(D, stored, "ctor")
    if not ok2:
        problems.append({"kind": "stored-value-rejected-on-reassign", "exc": again})
    elif not R.deep_same(again, stored):
        problems.append({"kind": "not-idempotent", "second": repr(again)[:200]})
    if not problems and not R.same_data(given, stored):
        may.append("lossy-coercion")
    return problems, may


# problems that merely follow from a mangled value (the manufactured str / set of characters is coerced
# differently, or refused, when it is assigned again)
CONSEQUENCES = {"str-as-sequence-rebuilt": ("not-idempotent", "nonconforming", "stored-value-rejected-on-reassign"),
                "bytes-as-sequence-rebuilt": ("not-idempotent", "nonconforming", "stored-value-rejected-on-reassign"),
                "str-split-into-set": ("not-idempotent", "stored-value-rejected-on-reassign"),
                "set-joined-into-str": ("not-idempotent", "stored-value-rejected-on-reassign")}


def classify(spec, given, stored, problems):
    kinds = {p["kind"] for p in problems}
    if kinds == {"not-idempotent"} and union_recoerces(spec, stored):
        return "union-coerces-before-exact-match"
    if (kinds == {"stored-value-rejected-on-reassign"} and G.contains(spec, ("union", "opt"))
            and G.contains(spec, ("File", "Directory")) and R.conforms(stored, spec)
            and all(p["exc"] in ("FileNotFoundError", "FileFormatsError") for p in problems)):
        return "union-alternative-raises-oserror"
    ev = mechanisms(spec, given, stored)
    if not ev:
        return None
    given_strs = set().union(*[e[1] for e in ev])
    made = set().union(*[e[2] for e in ev])
    allowed = set().union(*[CONSEQUENCES.get(e[0], ()) for e in ev])
    for p in problems:
        k = p["kind"]
        if k == "new-str" and p["str"] in made:
            continue
        if k == "split-str" and p["str"] in given_strs:
            continue
        if k in allowed:
            continue
        return None
    return sorted({e[0] for e in ev})[0]


def evaluate(bench, spec, term, run_dir=None):
    D = bench.cls(spec)
    given = G.build_value(term, bench.root)
    res = {"case": {"type": spec, "value": term}, "sig": env.sig_of([spec, term]),
           "counters": {"pairs": 1}, "distinct": {}}
    okc, stored, tobj = assign(D, G.build_value(term, bench.root), "ctor")
    oks, stored_s, _ = assign(D, G.build_value(term, bench.root), "setattr")
    member = R.conforms(given, spec)
    res["counters"]["value_conforms_before"] = int(member)
    obs = {"type": G.type_src(spec), "given": repr(given)[:160], "ctor": [okc, repr(stored)[:160]],
           "setattr": [oks, repr(stored_s)[:160]]}
    res["obs"] = obs
    res["nontrivial"] = bool(okc and G.depth(spec) >= 1)
    if not okc and not oks:
        res["verdict"] = "held"
        res["counters"]["rejected_at_assignment"] = 1
        res["counters"]["rejected_member"] = int(member)
        res["distinct"]["reject_exc"] = [stored]
        return res
    res["counters"]["accepted"] = 1
    res["counters"]["accepted_nonmember_coerced"] = int(not member)
    problems, may = [], []
    for ok, st in ((okc, stored), (oks, stored_s)):
        if ok:
            p, m = judge(spec, given, st, D)
            problems += [x for x in p if x not in problems]
            may += m
    if okc != oks or (okc and oks and not R.deep_same(stored, stored_s)):
        may.append("ctor-setattr-disagree")
    if okc and not R.deep_same(given, stored):
        res["counters"]["coerced_changed_value"] = 1
    if run_dir is not None and okc and not problems:
        res["counters"]["executed"] = 1
        try:
            out = tobj(cache_root=run_dir, worker="debug")
            if not R.deep_same(out.out, stored):
                res["counters"]["run_output_not_identical"] = 1
        except Exception as e:
            tb = env.short_tb(e, 8)
            if "pydra/utils/typing.py" in tb or "Incorrect type for" in str(e):
                problems.append({"kind": "accepted-then-rejected-at-run", "exc": type(e).__name__,
                                 "msg": str(e)[:300], "tb": tb})
            else:  # the run failed for a reason other than type checking: not this property's subject
                may.append("run-failure-outside-typing")
                res["distinct"]["run_failure_outside_typing"] = [type(e).__name__ + ": " + str(e)[:80]]
                res["obs"]["run_failure"] = tb
    if problems:
        res["verdict"] = "violated"
        res["witness"] = {"type": G.type_src(spec), "given": repr(given), "stored": repr(stored if okc else stored_s),
                          "problems": problems}
        res["mech"] = classify(spec, given, stored if okc else stored_s, problems)
    elif may:
        res["verdict"] = "may"
        res["counters"].update({"may_" + m: 1 for m in set(may)})
    else:
        res["verdict"] = "held"
    return res


def gen_pairs(rng, n_types, per_type, max_depth):
    pairs = []
    for _ in range(n_types):
        spec = G.gen_type(rng, rng.choice(range(1, max_depth + 1)))
        if spec == "None":
            continue
        for j in range(per_type):
            r = rng.random()
            if r < 0.4:
                term = G.gen_member(rng, spec, rng.choice(["file", "file", "dir", "missing"]), liberal=True)
            elif r < 0.75:
                term = G.perturb(rng, G.gen_member(rng, spec, "file", liberal=True))
            else:
                term = G.gen_member(rng, G.mutate_type(rng, spec), "file", liberal=True)
            pairs.append([spec, term])
    return pairs


def batch(case, wctx):
    from pydra.engine.workflow import Workflow  # noqa: F401  (binds pydra from the tree under test)
    root = G.make_root(wctx.fresh_dir("files"))
    bench = Bench(root)
    if case["kind"] == "systematic":
        types = G.depth1_types()[case["lo"]:case["hi"]]
        pairs = [[t, v] for t in types for v in G.hostile_pool()]
    else:
        rng = wctx.rng(f"rand{case['idx']}")
        pairs = gen_pairs(rng, case["n_types"], case["per_type"], case["max_depth"])
    run_rng = wctx.rng(f"run{case.get('idx', case.get('lo'))}")
    budget = case["runs"]
    out = []
    for spec, term in pairs:
        run_dir = None
        if budget > 0 and run_rng.random() < case["run_p"]:
            run_dir = wctx.fresh_dir("run")
        try:
            r = evaluate(bench, spec, term, run_dir)
        except Exception as e:
            r = {"verdict": "inconclusive", "case": {"type": spec, "value": term},
                 "why": "harness exception: " + env.short_tb(e)}
        if r.get("counters", {}).get("executed"):
            budget -= 1
        out.append(r)
    return {"multi": out}


def run(ctx):
    quick = ctx.tier == "quick"
    ctx.rule = ("pairs (declared type, value): (a) every depth<=1 type of the grammar x a fixed pool of "
                f"{len(G.hostile_pool())} hostile values, (b) random types of depth<=3 x members / perturbed "
                "members / members of a mutated type; observed on a real task field (ctor + setattr), a sample "
                "executed; non-trivial = accepted value for a compound type; distinct = distinct (type, value)")
    nsys = len(G.depth1_types())
    cases = [{"kind": "systematic", "lo": i, "hi": min(nsys, i + 24), "runs": 6 if quick else 40, "run_p": 0.02}
             for i in range(0, nsys, 24)]
    nrand = 16 if quick else 200
    for i in range(nrand):
        cases.append({"kind": "random", "idx": i, "n_types": 40 if quick else 100, "per_type": 8,
                      "max_depth": 3, "runs": 16 if quick else 60, "run_p": 0.12})
    ctx.record_all(ctx.pmap("vp.props.c20:batch", cases, nproc=8 if quick else 16, env={"PYTHONHASHSEED": "0"},
                            timeout=300 if quick else 2400))
    ctx.extra["systematic_types"] = nsys
    ctx.assumptions = [
        "conformance oracle follows PEP 484 (int acceptable for float, bool for int); MultiInputObj[T] is "
        "taken to mean list[T]",
        "run-time rejection is observed on a sample of accepted values with the debug worker"]


def replay(ctx, rep):
    import tempfile
    from pathlib import Path
    d = Path(tempfile.mkdtemp(prefix="c20-replay-", dir="/dev/shm"))
    bench = Bench(G.make_root(d / "files"))
    r = evaluate(bench, rep["case"]["type"], rep["case"]["value"], d / "run")
    print(env.jdump({k: r.get(k) for k in ("verdict", "mech", "obs", "witness")}, indent=1))
    import shutil
    shutil.rmtree(d, ignore_errors=True)
    return 1 if r["verdict"] == "violated" else 0
