"""C18 — every submission terminates.

Liveness restated as bounded progress.  Monitors installed on the real code inside the case
worker:  (1) a *lasso* detector on DiGraph._sorting — a sorting pass that sorts nothing while
nodes remain can never terminate; (2) a lasso detector on the sequential execution loop —
Submitter.get_runnable_tasks returning nothing three times in a row with an unchanged node status
signature under a synchronous worker; (3) a generous wall-clock watchdog whose firing is
*inconclusive*, never a violation.
Workload: generated workflow graphs with back-edges created through node input assignment
(self-loops, 2-cycles, longer cycles, cycles off the output path, harmless forward re-wiring),
untyped and typed nodes, under the sequential and the asynchronous loop; plus a
"cannot progress" family (an input whose hash differs between processes under the pool worker:
pydra's own stall detector must report an error).
Oracle: the submission returns outputs or raises a pydra error; a lasso is a violation with the
repeated state as witness.
"""
from __future__ import annotations

import json
import os

from vp import env
from vp.props import c03

LEVEL = "exploration"
LASSOS = []


class Lasso(Exception):
    pass


def install_monitors():
    from pydra.engine.graph import DiGraph
    from pydra.engine.submitter import Submitter
    if getattr(DiGraph, "_verif_c18", False):
        return
    orig = DiGraph._sorting

    def _sorting(self, notsorted_list, predecessors):
        sorted_part, remaining = orig(self, notsorted_list, predecessors)
        if not sorted_part and remaining:
            names = tuple(n.name for n in remaining)
            if getattr(self, "_verif_noprog", None) == names:
                # second consecutive pass over the same nodes without progress: the loop state repeats
                w = {"where": "DiGraph.sorting", "remaining": list(names),
                     "blocked_on": {n.name: [p.name for p in predecessors[n.name]] for n in remaining}}
                LASSOS.append(w)
                raise Lasso(json.dumps(w))
            self._verif_noprog = names
        else:
            self._verif_noprog = None
        return sorted_part, remaining
    DiGraph._sorting = _sorting
    DiGraph._verif_c18 = True
    orig_grt = Submitter.get_runnable_tasks

    def get_runnable_tasks(self, graph):
        tasks = orig_grt(self, graph)
        if not self.worker.is_async:
            sig = tuple((n.name, bool(n.started), len(n.successful), len(n.errored), len(n.queued or {}),
                         len(n.blocked or {}) if n.blocked is not None else -1) for n in graph.nodes)
            st = getattr(graph, "_verif_idle", (None, 0))
            if not tasks and st[0] == sig:
                n = st[1] + 1
                if n >= 3:
                    w = {"where": "Submitter.expand_workflow", "status": [list(x) for x in sig]}
                    LASSOS.append(w)
                    raise Lasso(json.dumps(w))
                graph._verif_idle = (sig, n)
            else:
                graph._verif_idle = (sig, 0) if not tasks else (None, 0)
        return tasks
    Submitter.get_runnable_tasks = get_runnable_tasks


class PidHashed:
    """an input whose content hash differs between processes (cannot-progress family)"""

    def __init__(self, v):
        self.v = v

    def __bytes_repr__(self, cache):
        yield f"PidHashed:{self.v}:{os.getpid()}".encode()

    def __str__(self):
        return f"P{self.v}"


def gen_case(rng, i):
    fam = ["self_loop", "two_cycle", "long_cycle", "off_path", "random_back", "random_back", "typed", "acyclic_rewire",
           "waiter_before_cycle"][i % 9]
    if fam == "typed":
        nodes = [{"name": "A", "kind": "FT", "inputs": {"a": ["lit", "x"]}},
                 {"name": "B", "kind": "FT", "inputs": {"a": ["node", "A"]}},
                 {"name": "C", "kind": "FT", "inputs": {"a": ["node", "B"]}}]
        back = [[rng.choice(["A", "B"]), rng.choice(["a", "b"]), rng.choice(["B", "C"])]]
        return {"spec": {"nodes": nodes, "out": ["C"], "back": back}, "family": fam}
    spec = c03.gen_spec(rng, nmax=rng.choice([3, 4, 5]), p_comb=0.1)
    names = [n["name"] for n in spec["nodes"]]
    f = lambda: rng.choice(["a", "b", "c"])  # noqa: E731
    if fam == "self_loop":
        n = rng.choice(names)
        back = [[n, f(), n]]
    elif fam == "two_cycle":
        i0 = rng.randrange(len(names) - 1)
        spec["nodes"][i0 + 1]["inputs"]["a"] = ["node", names[i0]]
        spec["nodes"][i0 + 1].pop("split", None) if "a" in (spec["nodes"][i0 + 1].get("split") or {}).get("vals", {}) else None
        back = [[names[i0], f(), names[i0 + 1]]]
    elif fam == "long_cycle":
        for k in range(1, len(names)):
            nd = spec["nodes"][k]
            nd["inputs"]["a"] = ["node", names[k - 1]]
            if "a" in (nd.get("split") or {}).get("vals", {}):
                nd.pop("split")
                nd.pop("comb", None)
        back = [[names[0], f(), names[-1]]]
    elif fam == "off_path":
        # cycle between the first two nodes, the output node does not depend on them
        spec["nodes"][-1]["inputs"] = {"a": ["lit", "solo"]}
        spec["nodes"][1]["inputs"]["b"] = ["node", names[0]]
        if "b" in (spec["nodes"][1].get("split") or {}).get("vals", {}):
            spec["nodes"][1].pop("split")
            spec["nodes"][1].pop("comb", None)
        back = [[names[0], f(), names[1]]]
    elif fam == "waiter_before_cycle":
        # a node added *before* the members of a cycle waits for it (two back-assignments): whatever reports the
        # cycle starts from a node that is not on it
        while len(names) < 3:
            spec = c03.gen_spec(rng, nmax=rng.choice([3, 4, 5]), p_comb=0.1)
            names = [n["name"] for n in spec["nodes"]]
        i0 = rng.randrange(1, len(names) - 1)
        nd = spec["nodes"][i0 + 1]
        nd["inputs"]["a"] = ["node", names[i0]]
        if "a" in (nd.get("split") or {}).get("vals", {}):
            nd.pop("split")
            nd.pop("comb", None)
        pj = 0 if rng.random() < 0.7 else rng.randrange(0, i0)
        pf = f()
        if pf in (spec["nodes"][pj].get("split") or {}).get("vals", {}):
            spec["nodes"][pj].pop("split")
            spec["nodes"][pj].pop("comb", None)
        back = [[names[i0], f(), names[i0 + 1]], [names[pj], pf, names[rng.choice([i0, i0 + 1])]]]
        if rng.random() < 0.3:
            back.append([names[0], f(), names[0]])
    elif fam == "acyclic_rewire":
        # re-point an input of a later node at an earlier node: stays acyclic
        j = rng.randrange(1, len(names))
        back = [[names[j], f(), names[rng.randrange(0, j)]]]
    else:
        back = [[rng.choice(names), f(), rng.choice(names)] for _ in range(rng.randint(1, 2))]
    spec["back"] = back
    return {"spec": spec, "family": fam, "worker": "cf" if i % 5 == 4 else "debug"}


def has_cycle(spec):
    edges = set()
    for nd in spec["nodes"]:
        ins = dict(nd.get("inputs", {}))
        for f, r in ((nd.get("split") or {}).get("vals", {})).items():
            ins[f] = r
        for t, f, s in spec.get("back", []):
            if t == nd["name"]:
                ins[f] = ["node", s]
        for r in ins.values():
            if r[0] == "node":
                edges.add((r[1], nd["name"]))
    names = [n["name"] for n in spec["nodes"]]
    adj = {n: [b for a, b in edges if a == n] for n in names}
    color = {}

    def dfs(u):
        color[u] = 1
        for v in adj[u]:
            if color.get(v) == 1 or (v not in color and dfs(v)):
                return True
        color[u] = 2
        return False
    return any(n not in color and dfs(n) for n in names)


def decide(case, wctx):
    install_monitors()
    del LASSOS[:]
    r = {"case": case, "sig": env.sig_of(case), "counters": {}, "nontrivial": True}
    if case.get("family") == "cannot_progress":
        from pydra.engine.submitter import Submitter
        from pydra.engine.workflow import Workflow
        from vp.terms import F
        from pydra.compose import workflow

        Workflow.clear_cache()
        out = err = None
        try:
            with Submitter(worker="cf", n_procs=2, cache_root=wctx.fresh_dir("cache")) as sub:
                res = sub(Stall(v=case["v"]), raise_errors=True)
            out = str(res.outputs.out)[:100]
        except Exception as e:
            err = f"{type(e).__name__}: {str(e)[:150]}"
        cyc = False
    else:
        spec = case["spec"]
        cyc = has_cycle(spec)
        out, err, ev = c03.run_spec(spec, wctx, worker=case.get("worker", "debug"))
        r["counters"]["body_starts"] = sum(1 for e in ev if e["ev"] == "start")
    r["counters"]["graphs_with_cycle"] = int(cyc)
    r["counters"]["ended_with_error"] = int(err is not None)
    r["counters"]["ended_with_outputs"] = int(err is None)
    r["obs"] = {"cycle": cyc, "outcome": "error" if err else "outputs", "error": err,
                "out": out if not isinstance(out, list) else out[:3]}
    r["distinct"] = {"families": [case.get("family")]}
    if LASSOS or (err and err.startswith("Lasso")):
        r["verdict"] = "violated"
        r["witness"] = {"why": "no-progress loop (would never terminate)", "lasso": LASSOS[:2] or err,
                        "back_edges": case.get("spec", {}).get("back")}
        w = (LASSOS or [{}])[0]
        if w.get("where") == "DiGraph.sorting" and cyc:
            r["mech"] = "cycle-sorting-spins"
        return r
    r["verdict"] = "held"
    return r


def _stall_defs():
    from pydra.compose import workflow
    from vp.terms import F

    @workflow.define(outputs=["out"])
    def Stall(v: int):
        a = workflow.add(F(a=PidHashed(v), tag="A"), name="A")
        b = workflow.add(F(a=a.out, tag="B"), name="B")
        return b.out
    return Stall


def __getattr__(name):
    if name == "Stall":
        globals()["Stall"] = _stall_defs()
        return globals()["Stall"]
    raise AttributeError(name)


def case_inproc(case, wctx):
    if case.get("family") == "cannot_progress":
        globals().setdefault("Stall", _stall_defs())
    return decide(case, wctx)


def case_one(case, wctx):
    """each case in its own process (vp.c18child) so that a busy loop anywhere in the submission is caught by
    the CPU-budget monitor and a blocked one by the (inconclusive-only) wall-clock watchdog"""
    d = wctx.fresh_dir("k")
    (d / "case.json").write_text(env.jdump(case))
    rc, _, err = env.run_group([env.PY, "-m", "vp.c18child", str(d / "case.json"), str(d / "out.json")], 600,
                               cwd=str(env.VERIF), env=dict(os.environ))
    if (d / "out.json").exists():
        try:
            return json.loads((d / "out.json").read_text())
        except ValueError:
            pass
    return {"verdict": "inconclusive", "case": case,
            "why": f"child rc={rc} (wall-clock watchdog)" if rc == "timeout" else f"child rc={rc}: {err.decode(errors='replace')[-300:]}"}


def run(ctx):
    quick = ctx.tier == "quick"
    rng = ctx.rng("gen")
    cases = [gen_case(rng, i) for i in range(64 if quick else 1500)]
    cases += [{"family": "cannot_progress", "v": i} for i in range(2 if quick else 6)]
    ctx.rule = ("C03 graphs + back-assignments (self-loop, 2-cycle, long cycle, cycle off the output path, an earlier node waiting for a cycle, random, typed nodes, "
                "acyclic re-wiring) under debug and cf, plus unstable-hash inputs under cf; every case is non-trivial; "
                "distinct = distinct case spec")
    ctx.record_all(ctx.pmap("vp.props.c18:case_one", cases, nproc=12, timeout=900 if quick else 3300))
    if not quick:
        from vp import suite
        ctx.record(suite.run_suite(ctx, ["pydra/engine/tests/test_graph.py", "pydra/compose/tests/test_workflow_run.py"], "lasso"))
    ctx.assumptions = ["a per-worker wall-clock watchdog turns a real hang outside the two monitored loops into inconclusive"]


def replay(ctx, rep):
    from vp.worker import WCtx
    r = case_one(rep["case"], WCtx(ctx.scratch, ctx.seed, ctx.prop, ctx.tier))
    print(env.jdump(r, indent=1))
    return 1 if r["verdict"] == "violated" else 0
