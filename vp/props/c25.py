"""C25 — command-line templates define the task they spell out.

Workload: template strings of 1-6 elements generated from the documented grammar (vp.gen_templates):
multi-word executables, positional / option-carried fields, boolean flags, builtin + generic + MIME
types, tuples, `?` `+` `*` `=default` suffixes, `out|` fields with and without `$template`, `modify|`.
Observation (a) `get_fields` of the class returned by the real `shell.define(template)` (inputs and
Outputs); (b) the argv handed to `pydra.environments.base.execute` (wrapped in-process; the wrapper
records the vector and creates the output files the vector names) when the task is *run* through a
Submitter with generated values, once with every field supplied at random and once with only the
mandatory ones.  Oracle: vp.ref_template (an independent reading of the documented grammar from the
string alone) for the fields (name, kind, type, default, flag, path template, template order, outputs)
and for the argv (executable words, then per field in template order: flag + value words).

MAY class (statement silent): untyped positional field with a default (`<v=3>`: an fs-object with
a literal default), positional `bool` without a flag.  Values avoid the subjects of C22/C23 (falsy
numbers, quoting).  Out of scope: strings that are not sentences of the grammar.
"""
from __future__ import annotations

import json
from pathlib import Path

from vp import env
from vp import gen_templates as G
from vp import ref_template as R

LEVEL = "exploration"


# ------------------------------------------------------------------------------------------ observe
def tdesc(tp):
    import types
    import typing as ty
    from pydra.utils.typing import MultiInputObj
    org = ty.get_origin(tp)
    if org in (ty.Union, types.UnionType):
        args = [a for a in ty.get_args(tp) if a is not type(None)]
        if len(args) == 1 and len(ty.get_args(tp)) == 2:
            return ["opt", tdesc(args[0])]
        return ["other", repr(tp)]
    if org is MultiInputObj:
        return ["multi", tdesc(ty.get_args(tp)[0])]
    if org is tuple:
        a = ty.get_args(tp)
        if len(a) == 2 and a[1] is Ellipsis:
            return ["vtuple", tdesc(a[0])]
        return ["tuple", [tdesc(x) for x in a]]
    if isinstance(tp, type):
        return ["cls", f"{tp.__module__}.{tp.__qualname__}"]
    return ["other", repr(tp)]


def ddesc(d):
    import attrs
    from pydra.compose.base import NO_DEFAULT
    if d is NO_DEFAULT:
        return ["nodefault"]
    if isinstance(d, attrs.Factory):
        return ["emptylist"] if d.factory is list else ["other", repr(d)]
    return ["value", d]


def observe_fields(C):
    from pydra.utils import get_fields
    from pydra.compose import shell
    from fileformats.generic import File
    obs = {"fields": [], "executable": None, "extra": []}
    for f in get_fields(C):
        if f.name == "append_args":
            continue
        if f.name == "executable":
            obs["executable"] = {"default": f.default, "position": f.position}
            continue
        obs["fields"].append({
            "name": f.name, "outarg": isinstance(f, shell.outarg), "type": tdesc(f.type),
            "default": ddesc(f.default), "argstr": f.argstr, "position": f.position,
            "path_template": getattr(f, "path_template", None),
            "copy": f.copy_mode == File.CopyMode.copy})
    obs["outputs"] = {f.name: {"type": tdesc(f.type), "outarg": isinstance(f, shell.outarg)}
                      for f in get_fields(C.Outputs) if f.name not in ("return_code", "stdout", "stderr")}
    return obs


def same_default(exp, got):
    if exp[0] != got[0]:
        return False
    if exp[0] != "value":
        return True
    return type(exp[1]) is type(got[1]) and exp[1] == got[1]


def compare_fields(parsed, obs):
    """list of (aspect, field, expected, observed)"""
    diffs = []
    exe = parsed["executable"]
    exp_exe = exe[0] if len(exe) == 1 else exe
    if obs["executable"] is None or obs["executable"]["default"] != exp_exe or obs["executable"]["position"] != 0:
        diffs.append(("executable", None, exp_exe, obs["executable"]))
    byname = {f["name"]: f for f in obs["fields"]}
    exp_names = [f["name"] for f in parsed["fields"]]
    if sorted(byname) != sorted(exp_names):
        diffs.append(("field-set", None, exp_names, sorted(byname)))
        return diffs
    order = [f["name"] for f in sorted(obs["fields"], key=lambda f: (f["position"] is None, f["position"] or 0))]
    pos = [f["position"] for f in obs["fields"]]
    if order != exp_names or None in pos or len(set(pos)) != len(pos) or min(pos, default=1) < 1:
        diffs.append(("order", None, exp_names, [(f["name"], f["position"]) for f in obs["fields"]]))
    for e in parsed["fields"]:
        o = byname[e["name"]]
        if o["type"] != e["type"]:
            diffs.append(("type", e["name"], e["type"], o["type"]))
        if not same_default(e["default"], o["default"]):
            diffs.append(("default", e["name"], e["default"], o["default"]))
        if o["argstr"] != e["argstr"]:
            diffs.append(("flag", e["name"], e["argstr"], o["argstr"]))
        if o["outarg"] != (e["role"] == "outarg"):
            diffs.append(("kind", e["name"], e["role"], "outarg" if o["outarg"] else "arg"))
        if e["role"] == "outarg" and o["path_template"] != e["path_template"]:
            diffs.append(("path_template", e["name"], e["path_template"], o["path_template"]))
        if o["copy"] != (e["role"] == "modify"):
            diffs.append(("copy_mode", e["name"], e["role"], o["copy"]))
    if sorted(obs["outputs"]) != parsed["outputs"]:
        diffs.append(("outputs", None, parsed["outputs"], sorted(obs["outputs"])))
    else:
        for e in parsed["fields"]:
            if e["name"] in obs["outputs"] and obs["outputs"][e["name"]]["type"] != e["type"]:
                diffs.append(("output-type", e["name"], e["type"], obs["outputs"][e["name"]]["type"]))
    return diffs


# ------------------------------------------------------------------------------------------ run
def _mkfile(path: Path, cls):
    info = R.CLS_INFO.get(cls, (cls, None, None))
    if cls.endswith(".Directory"):
        path.mkdir(parents=True, exist_ok=True)
        return
    magic = bytes.fromhex(info[2]) if info[2] else b""
    body = b"{}" if cls.endswith(".Json") else (b"a: 1\n" if cls.endswith(".Yaml") else b"a,b\n1,2\n")
    path.write_bytes(magic + (b"" if magic else body))


def materialise(parsed, absvals, indir: Path, outdir: Path):
    """abstract values -> (kwargs for the task, values for the reference with file sentinels, sentinel map)"""
    kw, refv, files = {}, {}, {}
    ftype = {f["name"]: f for f in parsed["fields"]}

    def conv(name, v):
        if isinstance(v, dict) and "file" in v:
            info = R.CLS_INFO.get(v["cls"], (None, None, None))
            p = indir / (v["file"] + (info[1] or ""))
            _mkfile(p, v["cls"])
            s = f"@@FILE{len(files)}@@"
            files[s] = {"path": str(p), "copy": ftype[name]["role"] == "modify"}
            return p, s
        if isinstance(v, dict) and "tuple" in v:
            return tuple(v["tuple"]), tuple(v["tuple"])
        if isinstance(v, list):
            pairs = [conv(name, x) for x in v]
            return [a for a, _ in pairs], [b for _, b in pairs]
        return v, v

    for name, v in absvals.items():
        f = ftype[name]
        if isinstance(v, dict) and "explicit" in v:
            b = R.base_of(f["type"])
            ext = (R.CLS_INFO.get(b[1], (None, None, None))[1] or "")
            p = outdir / (v["explicit"] + ext)
            kw[name], refv[name] = p, str(p)
        else:
            kw[name], refv[name] = conv(name, v)
    return kw, refv, files


def run_task(C, kw, cache_root: Path, kinds: dict):
    """run the task for real; returns (captured argv list, result)"""
    import pydra.environments.base as eb
    from pydra.engine.submitter import Submitter
    captured = []
    orig = eb.execute

    def capture(cmd, strip=False, **kwargs):
        cmd = list(cmd)
        captured.append(cmd)
        for a in cmd:
            if isinstance(a, str) and a.startswith("/"):
                p = Path(a)
                if not p.exists() and p.parent.is_dir():
                    _mkfile(p, kinds.get(p.name, "file"))
        return 0, "", ""

    eb.execute = capture
    res = exc = jobdir = None
    try:
        task = C(**kw)
        with Submitter(worker="debug", cache_root=cache_root) as sub:
            res = sub(task, raise_errors=True)
        jobdir = Path(res.cache_dir)
    except Exception as e:
        exc = e
        dirs = [d for d in cache_root.iterdir() if d.is_dir()]
        jobdir = dirs[0] if len(dirs) == 1 else None
    finally:
        eb.execute = orig
    return captured, jobdir, exc


def expected_outpaths(parsed, refv, jobdir: Path):
    out = {}
    for f in parsed["fields"]:
        if f["role"] == "outarg":
            t = f["path_template"]
            if "{" in t:
                t = t.format(**refv)
            out[f["name"]] = str(jobdir / Path(t).name)
    return out


def match_argv(exp, got, files, jobdir):
    if len(exp) != len(got):
        return False
    for e, g in zip(exp, got):
        if e in files:
            fp = Path(files[e]["path"])
            if files[e]["copy"]:
                ok = Path(g).name == fp.name and Path(g).parent == jobdir
            else:
                ok = g == str(fp) or (Path(g).name == fp.name and Path(g).parent == jobdir)
            if not ok:
                return False
        elif e != g:
            return False
    return True


# ------------------------------------------------------------------------------------------ classify
def classify(template, stage, detail):
    """witness -> mechanism id.  Keyed on what the template contains and how the failure shows, never on a case."""
    try:
        p = R.parse(template)
    except R.OutOfGrammar:
        return None
    if stage == "define":
        # a quoted default that itself contains '=' : the field token is split on every '='
        eq = any(f["default"][0] == "value" and isinstance(f["default"][1], str) and "=" in f["default"][1]
                 for f in p["fields"])
        if eq and "too many values to unpack" in str(detail):
            return "equals-in-default"
    if stage == "fields":
        # every difference is the type of an untyped out| field that follows a flag (str instead of a file)
        bad = {d[1] for d in detail}
        untyped_out = {f["name"] for f in p["fields"]
                       if f["role"] == "outarg" and f["argstr"] and f["type"] == R.FSOBJECT}
        if bad and bad <= untyped_out and all(d[0] in ("type", "output-type") and d[3] == R.STR for d in detail):
            return "untyped-out-after-option"
    if stage == "run-after-execute":
        # the pass-through output of a modify| field is computed from a dict with getattr
        if any(f["role"] == "modify" for f in p["fields"]) and isinstance(detail, AttributeError) \
                and "'dict' object has no attribute" in str(detail):
            return "modify-passthrough"
    return None


# ------------------------------------------------------------------------------------------ decide
def decide(case, wctx):
    from pydra.compose import shell
    template = case["template"]
    r = {"case": case, "sig": env.sig_of(template), "counters": {"templates": 1}, "distinct": {}}
    try:
        parsed = R.parse(template)
    except R.OutOfGrammar as e:
        r.update(verdict="inconclusive", why=f"generator produced a string outside the grammar: {e}")
        return r
    may = [f["may"] for f in parsed["fields"] if f["may"]]
    r["nontrivial"] = len(parsed["fields"]) >= 2
    kinds_seen = sorted({f["role"] for f in parsed["fields"]} | {f["type"][0] for f in parsed["fields"]}
                        | {"opt-flag" for f in parsed["fields"] if f["argstr"]})
    r["distinct"]["feature_sets"] = ["+".join(kinds_seen)]
    try:
        C = shell.define(template)
    except Exception as e:
        r["counters"]["define_raised"] = 1
        if may:
            r.update(verdict="may", obs={"define_raised": repr(e)[:200], "may": may})
            return r
        r.update(verdict="violated", mech=classify(template, "define", repr(e)),
                 witness={"template": template, "stage": "shell.define raised", "error": env.short_tb(e, 3),
                          "reference": parsed["fields"]})
        return r
    obs = observe_fields(C)
    r["counters"]["fields_compared"] = len(obs["fields"])
    diffs = compare_fields(parsed, obs)
    if diffs:
        if may:
            r.update(verdict="may", obs={"diffs": diffs[:3], "may": may})
            return r
        r.update(verdict="violated", mech=classify(template, "fields", diffs),
                 witness={"template": template, "stage": "fields", "diffs": diffs[:6]})
        return r
    if may:
        r.update(verdict="may", obs={"fields": "agree", "argv": "not judged", "may": may})
        return r
    # ---- runs
    runs = []
    kinds = {}
    for f in parsed["fields"]:
        if f["role"] == "outarg":
            b = R.base_of(f["type"])
            kinds[Path(f["path_template"]).name] = b[1]
    for vi, absvals in enumerate(case["values"]):
        indir, outdir, cache = wctx.fresh_dir("in"), wctx.fresh_dir("out"), wctx.fresh_dir("cache")
        kw, refv, files = materialise(parsed, absvals, indir, outdir)
        k2 = dict(kinds)
        for f in parsed["fields"]:
            if f["role"] == "outarg":
                b = R.base_of(f["type"])
                if isinstance(kw.get(f["name"]), Path):
                    k2[kw[f["name"]].name] = b[1]
                elif "{" in f["path_template"]:
                    k2[Path(f["path_template"].format(**refv)).name] = b[1]
        captured, jobdir, exc = run_task(C, kw, cache, k2)
        if exc is not None:
            r["counters"]["run_raised"] = r["counters"].get("run_raised", 0) + 1
        if exc is not None and not captured:
            r.update(verdict="violated", mech=classify(template, "run-before-execute", exc),
                     witness={"template": template, "stage": "run raised before the command was executed",
                              "values": absvals, "error": env.short_tb(exc, 12)})
            return r
        if len(captured) != 1:
            r.update(verdict="inconclusive", why=f"execute wrapper saw {len(captured)} calls")
            return r
        if jobdir is None or jobdir.parent != cache:
            r.update(verdict="inconclusive", why=f"job dir {jobdir} not a child of cache root")
            return r
        exp = R.argv(parsed, refv, expected_outpaths(parsed, refv, jobdir))
        r["counters"]["argv_captured"] = r["counters"].get("argv_captured", 0) + 1
        r["counters"]["argv_words"] = r["counters"].get("argv_words", 0) + len(captured[0])
        if not match_argv(exp, captured[0], files, jobdir):
            show = [files[e]["path"] if e in files else e for e in exp]
            r.update(verdict="violated", mech=classify(template, "argv", (exp, captured[0])),
                     witness={"template": template, "stage": "argv", "values": absvals, "expected": show,
                              "observed": captured[0]})
            return r
        if exc is not None:
            r.update(verdict="violated", mech=classify(template, "run-after-execute", exc),
                     witness={"template": template, "stage": "argv as spelled out, but the run raised afterwards",
                              "values": absvals, "argv": captured[0], "error": env.short_tb(exc, 12)})
            return r
        runs.append({"values": absvals, "argv": captured[0]})
    r.update(verdict="held", obs={"fields": len(obs["fields"]), "runs": runs[:2]})
    return r


def gen_case(rng, hostile=True):
    for _ in range(50):
        t = G.gen_template(rng, 6, hostile)
        try:
            parsed = R.parse(t)
        except R.OutOfGrammar:
            continue
        vals = [G.gen_values(rng, parsed, minimal=False)]
        if any(f["default"][0] != "nodefault" or f["role"] == "outarg" for f in parsed["fields"]):
            vals.append(G.gen_values(rng, parsed, minimal=True))
        return {"template": t, "values": vals}
    raise env.HarnessError("could not generate a template")


def case_batch(case, wctx):
    out = []
    for i in range(case["lo"], case["hi"]):
        c = gen_case(wctx.rng(f"t{i}"))
        try:
            out.append(decide(c, wctx))
        except Exception as e:  # harness bug
            out.append({"verdict": "inconclusive", "case": c, "why": "harness: " + env.short_tb(e, 4)})
    return {"multi": out}


def run(ctx):
    quick = ctx.tier == "quick"
    n = 480 if quick else 8000
    per = 30 if quick else 125
    ctx.rule = ("template strings of 1-6 elements from the documented grammar (vp.gen_templates), parsed by an "
                "independent reference; each is defined with the real shell.define, its fields compared, and run "
                "1-2 times with generated values with the executed argv captured at environments.base.execute; "
                "non-trivial = >= 2 template fields; distinct = distinct template strings")
    cases = [{"lo": i, "hi": min(n, i + per)} for i in range(0, n, per)]
    ctx.record_all(ctx.pmap("vp.props.c25:case_batch", cases, nproc=16, timeout=300 if quick else 1500))
    ctx.assumptions = ["argv is observed at pydra.environments.base.execute (the call the native environment makes); "
                       "the wrapper does not spawn a process but creates the files the vector names",
                       "values avoid falsy numbers, whitespace and quotes (C22/C23 subjects)"]


def replay(ctx, rep):
    from vp.worker import WCtx
    w = WCtx(str(ctx.scratch), ctx.seed, "C25", ctx.tier)
    r = decide(rep["case"], w)
    print(env.jdump({k: r.get(k) for k in ("verdict", "mech", "witness", "obs", "why")}, indent=1))
    return 1 if r["verdict"] == "violated" else 0
