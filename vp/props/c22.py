"""C22 - shell argument vector follows the documented field semantics.

Workload: generated shell task definitions (1-6 fields: bool / str / int / float / File / list /
MultiInputObj, optional or not, defaults, argstr plain / "" / templated / "..." , explicit positive
and negative positions, separators) made by `shell.define(dumpargv, inputs=[shell.arg(...)])` from
the JSON case spec, crossed with value assignments of simple words (set / unset / explicit None /
0 / 0.0 / False / empty MultiInputObj) and free `append_args`.  Every task is run end to end
(worker="debug", fresh cache).
Observe: the argv handed to `pydra.environments.base.execute` AND the argv printed by the really
executed `vp/fakes/dumpargv`.
Oracle: `vp.ref_argv` (written from the shell.arg documentation and the statement).
A second family ("crossref", differential): a field whose templated argstr / formatter refers to a multi-input field
defined before it; its arguments must be `--t <t>=<m[k]>` / `--count <len(m)>` appended to the argv of the twin
definition without the referring fields.
MAY (statement silent; recorded, never a violation): "" string values, empty plain lists,
"..." combined with a non-space separator, definitions pydra refuses to build.
Mechanism classifier: `gen_shell.classify_c22` (falsy-value-dropped, implicit-position-fills-gap).
"""
from __future__ import annotations

from vp import env
from vp import gen_shell as G

LEVEL = "exploration"


def run_one(case, d, tag):
    obs = G.observe(case, d, G.unique_name("C22T", [case, tag]))
    ref = obs["ref"]
    kinds = sorted({f["kind"] for f in case["fields"]})
    n_set = sum(1 for c in ref["chunks"] if c["args"])
    r = {"case": case, "sig": env.sig_of(case), "nontrivial": n_set >= 2,
         "counters": {"tasks_run": 1}, "distinct": {}}
    slim = {"ref_argv": ref["argv"], "captured": obs["captured"], "received": obs["received"]}
    r["obs"] = slim
    if "define_error" in obs:
        r.update(verdict="may", nontrivial=False)
        r["obs"]["define_error"] = obs["define_error"]
        r["counters"] = {"may_definition_rejected": 1}
        return r
    if ref["may"]:
        r.update(verdict="may", nontrivial=False)
        r["counters"] = {"tasks_run": 1, **{"may_" + m: 1 for m in ref["may"]}}
        return r
    if obs["captured"] is None or obs["received"] is None:
        # the command was never executed: pydra failed to build/run it for a well-formed case
        r.update(verdict="violated", mech=None,
                 witness={"error": obs.get("run_error"), "ref_argv": ref["argv"]})
        return r
    r["counters"].update(argv_captured=1, argv_received_from_process=1,
                         fields_contributing=n_set)
    shape = [[c["kind"], c["cls"], len(c["args"])] for c in ref["chunks"]]
    r["distinct"] = {"definition_shapes": [env.sig_of(shape)], "field_kinds": kinds,
                     "position_patterns": [env.sig_of([c["position"] for c in ref["chunks"]])]}
    if obs["received"] != obs["captured"][1:]:
        r.update(verdict="violated", mech=None,
                 witness={"what": "process received a different argv than was handed to execute()", **slim})
        return r
    if obs["captured"] == ref["argv"]:
        r["verdict"] = "held"
        return r
    mech, info = G.classify_c22(ref["argv"][:1 + len(case.get("exe_extra", []))], ref,
                                obs["captured"], case["append_args"])
    r.update(verdict="violated", mech=mech,
             witness={"fields": case["fields"], "values": case["values"], **slim, "classifier": info})
    return r


def case_batch(batch, wctx):
    out = []
    for i in range(batch["lo"], batch["hi"]):
        rng = wctx.rng(f"c22-{i}")
        case = G.gen_case(rng, "c22")
        d = wctx.fresh_dir(f"c{i}")
        try:
            out.append(run_one(case, d, i))
        except Exception as e:  # harness trouble
            out.append({"verdict": "inconclusive", "case": case, "why": env.short_tb(e)})
        G.clean_case_dir(d)
    return {"multi": out}


def crossref_one(i, rng, d):
    """A field whose argstr / formatter refers to *another* (multi-input) field: its arguments must be rendered from
    that field's whole value, whatever was rendered before it.  Differential: argv(definition with the referring
    fields) == argv(twin definition without them) + the referring fields' own arguments."""
    import json
    import typing as ty
    from pydra.compose import shell
    from pydra.utils.typing import MultiInputObj
    words = ["alpha", "beta", "gamma", "delta", "eps"]
    m = rng.sample(words, rng.randint(1, 4))
    tv = rng.choice(["t", "tag7", "x-y"])
    mstyle = rng.choice(["-m", "-m...", "--m={m}", ""])
    mname, tname, nname = rng.choice([("files", "tag", "zcount"), ("aa", "bb", "cc"), ("m", "t", "u")])
    idx = rng.randrange(len(m))

    def count_fmt(**kw):          # formatter taking the multi-input field by name
        return f"--count {len(kw[mname])}"
    count_fmt.__signature__ = __import__("inspect").Signature(
        [__import__("inspect").Parameter(mname, __import__("inspect").Parameter.POSITIONAL_OR_KEYWORD)])
    base = [shell.arg(name=mname, type=MultiInputObj[str], argstr=mstyle.replace("{m}", "{" + mname + "}"))]
    extra = [shell.arg(name=tname, type=str, argstr="--t {" + tname + "}={" + mname + "[" + str(idx) + "]}"),
             shell.arg(name=nname, type=bool, default=True, argstr="", formatter=count_fmt)]
    use_fmt = rng.random() < 0.5
    if not use_fmt:
        extra = extra[:1]

    def argv_of(args, values, tag):
        cls = shell.define(G.DUMPARGV, inputs=args, name=G.unique_name("C22X", [i, tag, mstyle, mname, use_fmt]))
        out = cls(**values)(cache_root=d / ("cache-" + tag), worker="debug")
        return json.loads(out.stdout.strip().splitlines()[-1])
    case = {"crossref": i, "m": m, "t": tv, "mstyle": mstyle, "names": [mname, tname, nname], "idx": idx, "formatter": use_fmt}
    r = {"case": case, "sig": env.sig_of(case), "nontrivial": len(m) >= 2, "counters": {"tasks_run": 2, "crossref_pairs": 1},
         "distinct": {"field_kinds": ["crossref"]}}
    try:
        twin = argv_of(base, {mname: m}, "twin")
        full = argv_of(base + extra, {mname: m, tname: tv}, "full")
    except Exception as e:
        r.update(verdict="violated", mech=None, witness={"error": env.short_tb(e)})
        return r
    want = twin + ["--t", f"{tv}={m[idx]}"] + (["--count", str(len(m))] if use_fmt else [])
    r["obs"] = {"twin": twin, "full": full}
    if full == want:
        r["verdict"] = "held"
    else:
        r.update(verdict="violated", mech=None,
                 witness={"what": "arguments of a field that refers to a multi-input field were not rendered from that field's value",
                          "expected": want, "got": full})
    return r


def crossref_batch(batch, wctx):
    out = []
    for i in range(batch["lo"], batch["hi"]):
        d = wctx.fresh_dir(f"x{i}")
        try:
            out.append(crossref_one(i, wctx.rng(f"c22x-{i}"), d))
        except Exception as e:  # harness trouble
            out.append({"verdict": "inconclusive", "case": {"crossref": i}, "why": env.short_tb(e)})
        G.clean_case_dir(d)
    return {"multi": out}


def run(ctx):
    quick = ctx.tier == "quick"
    n = G.QUICK_N.get(ctx.prop, 600) if quick else 6000
    per = 25 if quick else 400
    ctx.rule = ("random shell.define definitions (1-6 fields of 7 kinds, 5 argstr styles, explicit +/- positions, "
                "separators, defaults) x value assignments of simple words incl. unset/None/0/0.0/False; each run "
                "end to end with the dumpargv fake; non-trivial = at least 2 fields contribute arguments; "
                "distinct = distinct case spec")
    cases = [{"lo": i, "hi": min(n, i + per)} for i in range(0, n, per)]
    ctx.record_all(ctx.pmap("vp.props.c22:case_batch", cases, nproc=G.NPROC, timeout=300 if quick else 2400))
    nx = 40 if quick else 600
    ctx.record_all(ctx.pmap("vp.props.c22:crossref_batch", [{"lo": i, "hi": min(nx, i + 10)} for i in range(0, nx, 10)],
                            nproc=G.NPROC, timeout=300 if quick else 1200))
    ctx.assumptions = ["reference model vp/ref_argv.py encodes the shell.arg documentation + the statement; "
                       "'' values, empty plain lists, '...' with a non-space sep and rejected definitions are MAY"]


def replay(ctx, rep):
    from pathlib import Path
    d = Path(ctx.scratch) / "replay"
    d.mkdir(parents=True, exist_ok=True)
    if "crossref" in rep["case"]:
        from vp.worker import WCtx
        i = rep["case"]["crossref"]
        r = crossref_one(i, WCtx(ctx.scratch, ctx.seed, ctx.prop, ctx.tier).rng(f"c22x-{i}"), d)
        print(env.jdump({k: r.get(k) for k in ("verdict", "obs", "witness")}, indent=1))
        return 1 if r["verdict"] == "violated" else 0
    r = run_one(rep["case"], d, "replay")
    print(env.jdump({k: r.get(k) for k in ("verdict", "mech", "obs", "witness")}, indent=1))
    return 1 if r["verdict"] == "violated" else 0
