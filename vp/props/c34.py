"""C34 — file inputs are staged into the job directory according to their copy mode.

Workload: generated tasks (source text emitted per case; python tasks with 3 file fields and
shell tasks driving the fake tool vp/fakes/iotool) whose fields have generated types
(File, Directory, list / nested list / dict / tuple / unions with ints, MultiInputObj, SetOf[File]),
copy modes (any, copy, link, symlink, hardlink, *_or_copy) and collations, and values built from
sources in several directories with colliding base names (python cases), repeated objects and
equal-but-distinct objects.  Two views of every run, each decided separately:
  * "job.inputs": what Job.inputs resolves to (read in a pre_run_task hook, i.e. with the job
    directory in place) — the values a task is supposed to run on;
  * "body": what the executed body really received: the python function reports its arguments,
    the fake tool reports its argv paths; then the body appends to every input of a pure
    `copy` field.
Oracle (model free, sources have unique content):
  * every file leaf shows the content (digest) of the source at that position        [all modes]
  * shape, container kinds, keys and non-file leaves equal the task's (coerced) input value
  * mode excludes `leave`  -> the path lies inside the job directory
  * mode == copy  -> path differs from the original, is no symlink, has another inode, and after
    the body's append every original still has its digest ("independent of the original")
  * mode == symlink / hardlink / link -> it *is* such a link to the original
  * one source occurring several times in one field -> one staged path; distinct sources never
    share a staged path; collation siblings/adjacent -> the members of a set share one directory
  * staging does not fail.
Not demanded: what `any` / `*_or_copy` pick; whether a source occurring in two *fields* is
staged once (statement speaks of a value).
"""
from __future__ import annotations

import json
import os
from pathlib import Path

from vp import env, iofiles as IO

LEVEL = "exploration"
MODES = ["any", "copy", "copy", "link", "symlink", "hardlink", "link_or_copy", "hardlink_or_copy", "symlink_or_copy"]
PY_SHAPES = ["F", "D", "LF", "LLF", "DF", "DU", "TFD", "TF", "LFD", "DLF", "MF", "S"]
SH_SHAPES = ["F", "D", "LF", "MF"]
TYPES = {
    "F": "File", "D": "Directory", "LF": "list[File]", "LLF": "list[list[File]]", "DF": "dict[str, File]",
    "DU": "dict[str, ty.Union[File, int]]", "TFD": "tuple[File, Directory]", "TF": "tuple[File, ...]",
    "LFD": "list[ty.Union[File, Directory]]", "DLF": "dict[str, list[File]]", "MF": "MultiInputObj[File]",
    "S": "SetOf[File]",
}
NAMES = ["x.txt", "in.nii.gz", "data", "b.dat"]
TOOL = str(Path(__file__).resolve().parents[1] / "fakes" / "iotool")
HOOK_VIEW = {}


# ------------------------------------------------------------------------------------------
# generation
# ------------------------------------------------------------------------------------------

def gen_value(rng, shape, files, dirs):
    def f(fresh_ok=True):
        leaf = {"t": "F", "src": rng.choice(files)}
        if fresh_ok and rng.random() < 0.2:
            leaf["fresh"] = True
        return leaf

    def d():
        return {"t": "D", "src": rng.choice(dirs)}

    def fl(lo=1, hi=3):
        out = [f() for _ in range(rng.randint(lo, hi))]
        if len(out) >= 2 and rng.random() < 0.4:
            out[-1] = dict(out[0])  # repeated source
        return out
    if shape == "F":
        return f()
    if shape == "D":
        return d()
    if shape in ("LF", "MF"):
        return {"t": "list", "v": fl()} if shape == "LF" or rng.random() < 0.6 else f()
    if shape == "LLF":
        return {"t": "list", "v": [{"t": "list", "v": fl(1, 2)} for _ in range(rng.randint(1, 2))]}
    if shape == "DF":
        return {"t": "dict", "v": {f"k{i}": x for i, x in enumerate(fl())}}
    if shape == "DU":
        v = {f"k{i}": x for i, x in enumerate(fl())}
        v["n"] = {"t": "lit", "v": rng.randint(0, 9)}
        return {"t": "dict", "v": v}
    if shape == "TFD":
        return {"t": "tuple", "v": [f(), d()]}
    if shape == "TF":
        return {"t": "tuple", "v": fl()}
    if shape == "LFD":
        return {"t": "list", "v": [rng.choice([f, d])() for _ in range(rng.randint(1, 3))]}
    if shape == "DLF":
        return {"t": "dict", "v": {f"k{i}": {"t": "list", "v": fl(1, 2)} for i in range(rng.randint(1, 2))}}
    if shape == "S":
        return {"t": "S", "src": None}
    raise ValueError(shape)


def gen_case(rng, kind):
    """collide: 'cross' = base names shared by all fields and directories, 'within' = every field has its
    own names (collisions only among the sources of one field), 'none' = all base names unique (shell)"""
    collide = "none" if kind == "shell" else ("cross" if rng.random() < 0.35 else "within")
    nf = 3 if kind == "python" else rng.randint(1, 3)
    layout, pools = [], []
    for k in range(nf):
        if collide == "cross" and k > 0:
            pools.append(pools[0])
            continue
        files, dirs = [], []
        for di in range(3):
            for nm in NAMES:
                if rng.random() < 0.8:
                    i = len(layout)
                    rel = {"cross": f"d{di}/{nm}", "within": f"d{di}/f{k}_{nm}", "none": f"d{di}/u{i}{nm}"}[collide]
                    layout.append({"id": f"s{i}", "kind": "F", "rel": rel})
                    files.append(f"s{i}")
            i = len(layout)
            rel = {"cross": f"d{di}/sub", "within": f"d{di}/sub_f{k}", "none": f"d{di}/sub{i}"}[collide]
            layout.append({"id": f"s{i}", "kind": "D", "rel": rel})
            dirs.append(f"s{i}")
        if not files:
            i = len(layout)
            layout.append({"id": f"s{i}", "kind": "F", "rel": f"d0/only{i}.txt"})
            files.append(f"s{i}")
        pools.append((files, dirs))
    by_id = {e["id"]: e for e in layout}
    fields = []
    for k in range(nf):
        files, dirs = pools[k]
        shape = rng.choice(PY_SHAPES if kind == "python" else SH_SHAPES)
        fld = {"shape": shape, "mode": rng.choice(MODES), "coll": "any", "spec": gen_value(rng, shape, files, dirs)}
        if shape == "S":
            # members with pairwise different names and extensions (adjacent collation needs that)
            by_name = {}
            for s in files:
                by_name.setdefault(os.path.basename(by_id[s]["rel"]), []).append(s)
            picks = rng.sample(sorted(by_name), min(len(by_name), rng.randint(2, 3)))
            fld["spec"] = {"t": "S", "src": [rng.choice(by_name[n]) for n in picks]}
            fld["coll"] = rng.choice(["any", "siblings", "adjacent"])
        fields.append(fld)
    return {"kind": kind, "collide": collide, "layout": layout, "fields": fields}


def emit_source(case, tool_report=None):
    L = ["import typing as ty", "from fileformats.generic import File, Directory, SetOf",
         "from pydra.utils.typing import MultiInputObj", "from vp.props import c34 as _c34"]
    n = len(case["fields"])
    if case["kind"] == "python":
        L += ["from pydra.compose import python", "",
              "def body(%s, mut):" % ", ".join(f"f{k}" for k in range(n)),
              "    return _c34.py_body({%s}, mut)" % ", ".join(f"'f{k}': f{k}" for k in range(n)), "",
              "T = python.define(body, outputs=['out'], inputs={"]
        for k, f in enumerate(case["fields"]):
            L.append(f"    'f{k}': python.arg(type={TYPES[f['shape']]}, copy_mode={f['mode']!r}, "
                     f"copy_collation={f['coll']!r}),")
        L += ["    'mut': python.arg(type=list),", "})"]
    else:
        L += ["from pydra.compose import shell", "", "@shell.define", "class T(shell.Task['T.Outputs']):",
              f"    executable = {TOOL!r}",
              "    report: str = shell.arg(argstr='--report', position=1)",
              "    mut: str = shell.arg(argstr='--mut', position=2)"]
        for k, f in enumerate(case["fields"]):
            L.append(f"    f{k}: {TYPES[f['shape']]} = shell.arg(argstr='--f{k}', position={k + 3}, "
                     f"copy_mode={f['mode']!r})")
        L += ["    class Outputs(shell.Outputs):", "        pass"]
    return "\n".join(L) + "\n"


def py_body(vals, mut):
    """the python task body: report what was received, then append to the inputs of `mut` fields"""
    reports = {k: IO.report(v) for k, v in vals.items()}
    mutated = []
    for k in mut:
        for _, leaf in IO.report_leaves(reports[k]):
            for pr in (leaf["members"] if leaf["leaf"] == "S" else [leaf]):
                if pr["exists"] and pr["path"] not in mutated:
                    IO.mutate(pr["path"])
                    mutated.append(pr["path"])
    return {"reports": reports, "mutated": mutated, "cwd": os.getcwd()}


def hook(job):
    HOOK_VIEW.clear()
    HOOK_VIEW["jobdir"] = str(job.cache_dir)
    try:
        inputs = job.inputs
        HOOK_VIEW["reports"] = {k: IO.report(v) for k, v in inputs.items() if k[0] == "f" and k[1:].isdigit()}
    except Exception as e:
        HOOK_VIEW["error"] = f"{type(e).__name__}: {str(e)[:300]}"


# ------------------------------------------------------------------------------------------
# oracle
# ------------------------------------------------------------------------------------------

def mode_bits(mode):
    from fileformats.generic import File
    M = File.CopyMode
    m = M[mode]
    return {"leave": bool(m & M.leave), "copy": bool(m & M.copy), "sym": bool(m & M.symlink),
            "hard": bool(m & M.hardlink)}


def judge_field(k, fld, pairs, cat, jobdir, seen_paths, flat_only=False):
    """pairs: [(source ids, path reports)] per leaf, aligned.  Returns list of violations."""
    bad = []
    bits = mode_bits(fld["mode"])
    staged_of = {}
    for sids, prs in pairs:
        want = sorted(cat[s]["digest"] for s in sids)
        got = sorted(str(p["digest"]) for p in prs)
        if want != got:
            bad.append({"why": "content", "field": k, "sources": [cat[s]["path"] for s in sids],
                        "got": [[p["path"], p["digest"]] for p in prs]})
            continue
        by_d = {cat[s]["digest"]: s for s in sids}
        for p in prs:
            s = by_d[p["digest"]]
            o = cat[s]
            oi = IO.path_report(o["path"])
            w = {"field": k, "mode": fld["mode"], "source": o["path"], "staged": p["path"]}
            if not bits["leave"] and not IO.inside(p["path"], jobdir):
                bad.append({"why": "not-staged", **w, "jobdir": jobdir})
            only = [n for n in ("copy", "sym", "hard") if bits[n]]
            if not bits["leave"]:
                is_sym = p["islink"] and p["real"] == oi["real"]
                is_hard = (not p["islink"]) and p["ino"] == oi["ino"] and p["path"] != o["path"]
                if only == ["copy"] and (p["path"] == o["path"] or p["islink"] or p["ino"] == oi["ino"]
                                         or p["real"] == oi["real"]):
                    bad.append({"why": "copy-shares-storage", **w, "islink": p["islink"]})
                if only == ["sym"] and not is_sym:
                    bad.append({"why": "not-a-symlink", **w})
                if only == ["hard"] and not (is_hard or o["kind"] == "D"):
                    bad.append({"why": "not-a-hardlink", **w})
                if sorted(only) == ["hard", "sym"] and not (is_sym or is_hard or o["kind"] == "D"):
                    bad.append({"why": "not-a-link", **w})
            if s in staged_of and staged_of[s] != p["path"]:
                bad.append({"why": "staged-twice", **w, "other": staged_of[s]})
            staged_of[s] = p["path"]
            if IO.inside(p["path"], jobdir):
                seen_paths.setdefault(p["path"], set()).add(s)
        if len(sids) > 1 and fld["coll"] in ("siblings", "adjacent"):
            if len({os.path.dirname(p["path"]) for p in prs}) != 1:
                bad.append({"why": "collation", "field": k, "coll": fld["coll"], "paths": [p["path"] for p in prs]})
    return bad


def leaf_pairs(spec, rep):
    out = []
    for (_, ls), (_, lr) in zip(IO.leaves(spec), IO.report_leaves(rep)):
        if ls["t"] == "S":
            out.append((list(ls["src"]), lr["members"] if lr["leaf"] == "S" else [lr]))
        else:
            out.append(([ls["src"]], [lr]))
    return out


def _orig_only(b, cat_paths):
    """the violation speaks only about original source paths (nothing staged was involved)"""
    ps = [b["staged"]] if "staged" in b else b.get("paths", [])
    return bool(ps) and all(p in cat_paths for p in ps)


def classify(case, view, bad, hook_view, cat):
    whys = {b["why"] for b in bad}
    cat_paths = {v["path"] for v in cat.values()}
    if view == "body" and case["kind"] == "python" and "error" not in whys:
        # the function received the *original* objects while job.inputs holds other (staged) paths for the
        # same fields, or could not be computed at all: the body does not run on job.inputs
        hook_paths = None
        if hook_view.get("reports") is not None:
            hook_paths = {k: {pr["path"] for _, lf in IO.report_leaves(r)
                              for pr in (lf["members"] if lf["leaf"] == "S" else [lf])}
                          for k, r in hook_view["reports"].items()}
        ok = True
        for b in bad:
            if b["why"] == "source-changed":
                continue
            if not _orig_only(b, cat_paths):
                ok = False
            elif hook_paths is not None:
                ps = [b["staged"]] if "staged" in b else b["paths"]
                if all(p in hook_paths.get(b["field"], ()) for p in ps):
                    ok = False  # job.inputs has the same unstaged paths: staging itself is at fault
        if ok:
            return "python-body-bypasses-staging"
    if whys == {"error"}:
        text = bad[0]["detail"]
        if "FileExistsError" in text:
            by_field = []
            for f in case["fields"]:
                if mode_bits(f["mode"])["leave"] and f["coll"] == "any":
                    continue
                by_field.append({os.path.basename(cat[s]["path"]) for _, ls in IO.leaves(f["spec"])
                                 for s in (ls["src"] if ls["t"] == "S" else [ls["src"]])})
            for i, a in enumerate(by_field):
                for b in by_field[i + 1:]:
                    if any(n in text for n in a & b):
                        return "cross-field-name-clash"
    return None


def decide(case, wctx):
    from pydra.engine.hooks import TaskHooks
    from pydra.engine.submitter import Submitter
    sig = env.sig_of(case)
    root = wctx.fresh_dir("src")
    cache = wctx.fresh_dir("cache")
    cat = IO.make_sources(root, case["layout"])
    srcfile = root / f"gen_{sig}.py"
    srcfile.write_text(emit_source(case))
    import sys
    import types
    mod = types.ModuleType(f"vpgen_c34_{sig}")
    mod.__file__ = str(srcfile)
    sys.modules[mod.__name__] = mod
    exec(compile(srcfile.read_text(), str(srcfile), "exec"), mod.__dict__)
    T = mod.T
    n = len(case["fields"])
    objs = {}
    vals = {f"f{k}": IO.build(case["fields"][k]["spec"], cat, objs) for k in range(n)}
    mut = [f"f{k}" for k in range(n) if case["fields"][k]["mode"] == "copy"]
    tool_rep = root / "tool_report.json"
    try:
        if case["kind"] == "python":
            task = T(mut=mut, **vals)
        else:
            task = T(report=str(tool_rep), mut=",".join(mut) or "none", **vals)
        in_shape = {f"f{k}": IO.report_shape(IO.report(getattr(task, f"f{k}"))) for k in range(n)}
    except Exception as e:
        raise env.HarnessError("task construction rejected the generated value: " + env.short_tb(e, 3))
    HOOK_VIEW.clear()
    err = None
    res = None
    try:
        with Submitter(worker="debug", cache_root=cache) as sub:
            res = sub(task, raise_errors=False, hooks=TaskHooks(pre_run_task=hook))
        if res.errored:
            err = "job errored: " + " ".join(str(x) for x in (res.errors or {}).get("error message", []))[-400:]
    except Exception as e:
        err = f"{type(e).__name__}: {str(e)[:400]}"
    after = IO.redigest(cat)
    changed = [{"why": "source-changed", "source": cat[s]["path"], "before": cat[s]["digest"], "after": after[s]}
               for s in cat if after[s] != cat[s]["digest"]]
    hv = dict(HOOK_VIEW)
    jobdir = hv.get("jobdir")
    views = {}
    # ---- view 1: job.inputs
    if "reports" in hv:
        views["job.inputs"] = {"reports": hv["reports"], "error": None}
    else:
        views["job.inputs"] = {"reports": None, "error": hv.get("error", "hook not reached; " + str(err))}
    # ---- view 2: body
    if case["kind"] == "python":
        if err is None:
            out = res.outputs.out
            views["body"] = {"reports": out["reports"], "error": None, "mutated": out["mutated"], "cwd": out["cwd"]}
        else:
            views["body"] = {"reports": None, "error": err}
    else:
        if tool_rep.exists():
            tr = json.loads(tool_rep.read_text())
            views["body"] = {"reports": tr["fields"], "error": None, "mutated": tr["mutated"], "cwd": tr["cwd"],
                             "flat": True}
        else:
            views["body"] = {"reports": None, "error": err or "tool wrote no report"}
    results, verdict_bad = [], {}
    for vname, v in views.items():
        bad = []
        seen = {}
        nleaves = 0
        if v["reports"] is None:
            bad.append({"why": "error", "detail": str(v["error"])})
        else:
            for k in range(n):
                fk, fld = f"f{k}", case["fields"][k]
                rep = v["reports"].get(fk)
                if v.get("flat"):
                    pairs = [([ls["src"]], None) for _, ls in IO.leaves(fld["spec"])]
                    if rep is None or len(rep) != len(pairs):
                        bad.append({"why": "shape", "field": fk, "expected_paths": len(pairs), "got": rep})
                        continue
                    pairs = [(p[0], [r]) for p, r in zip(pairs, rep)]
                else:
                    if rep is None or IO.report_shape(rep) != in_shape[fk]:
                        bad.append({"why": "shape", "field": fk, "expected": in_shape[fk],
                                    "got": None if rep is None else IO.report_shape(rep)})
                        continue
                    pairs = leaf_pairs(fld["spec"], rep)
                nleaves += sum(len(p[1]) for p in pairs)
                bad += judge_field(fk, fld, pairs, cat, jobdir or v.get("cwd"), seen)
            for p, srcs in seen.items():
                if len(srcs) > 1:
                    bad.append({"why": "clash", "staged": p, "sources": sorted(cat[s]["path"] for s in srcs)})
            if vname == "body":
                bad += changed
        verdict_bad[vname] = bad
        results.append((vname, bad, nleaves))
    out = []
    for vname, bad, nleaves in results:
        restrictive = sum(1 for f in case["fields"] if not mode_bits(f["mode"])["leave"])
        r = {"case": {**case, "view": vname}, "sig": env.sig_of([sig, vname]),
             "nontrivial": restrictive >= 1 and (nleaves >= 1 or bool(bad)),
             "counters": {"views_" + vname.replace(".", "_"): 1, "file_leaves_checked": nleaves,
                          "kind_" + case["kind"]: 1,
                          "body_mutations": len(views[vname].get("mutated") or [])},
             "obs": {"view": vname, "leaves": nleaves, "modes": [f["mode"] for f in case["fields"]],
                     "mutated": (views[vname].get("mutated") or [])[:3]}}
        if bad:
            r["verdict"] = "violated"
            r["mech"] = classify(case, vname, bad, views["job.inputs"], cat)
            r["witness"] = {"view": vname, "violations": bad[:5]}
        else:
            r["verdict"] = "held"
        out.append(r)
    return out


def case_batch(case, wctx):
    out = []
    for c in case["cases"]:
        try:
            out += decide(c, wctx)
        except env.HarnessError as e:
            out.append({"verdict": "inconclusive", "case": c, "why": "harness: " + str(e)})
        except Exception as e:
            out.append({"verdict": "inconclusive", "case": c, "why": "harness exception: " + env.short_tb(e)})
    return {"multi": out}


def run(ctx):
    quick = ctx.tier == "quick"
    rng = ctx.rng("gen")
    n = 200 if quick else 4000
    cases = [gen_case(rng, "shell" if i % 3 == 2 else "python") for i in range(n)]
    per = 10 if quick else 50
    ctx.rule = ("generated python (3 file fields, colliding base names over 3 directories) and shell (1-3 file fields, "
                "fake tool) tasks; field type x copy mode x collation x nested value with repeated sources; every run "
                "is decided twice (view job.inputs, view body); non-trivial = at least one field whose mode excludes "
                "`leave` and at least one file leaf observed; distinct = distinct (case, view)")
    res = ctx.pmap("vp.props.c34:case_batch", [{"cases": cases[i:i + per]} for i in range(0, n, per)],
                   nproc=8 if quick else 16, timeout=900 if quick else 3300)
    ctx.record_all(res)
    ctx.assumptions = ["sources and cache on one tmpfs (links possible, no CIFS); debug worker only; "
                       "python view job.inputs is read by a hook (python tasks do not read it themselves)"]


def replay(ctx, rep):
    from vp.worker import WCtx
    case = {k: v for k, v in rep["case"].items() if k != "view"}
    rs = decide(case, WCtx(ctx.scratch, ctx.seed, ctx.prop, ctx.tier))
    print(env.jdump(rs, indent=1))
    return 1 if any(r["verdict"] == "violated" for r in rs) else 0
