"""C23 - field values reach the executed command intact.

Workload: strings of length 1-6 over {letters, digit, space, tab, ' " \\ $ * ; e-acute, leading -}
placed in plain-argstr fields, argstr "" fields, templated fields (`--t={t}`, `-t {t}`), lists with a
separator, lists with "...", MultiInputObj fields, File / list[File] fields pointing at real files
with such names, and `append_args` given as a *list* (a string there is documented to be split).
Definitions are generated as for C22 but without explicit positions and without numeric fields,
so that C22's open ordering / falsy defects cannot interfere.
Observe: the argv printed by the **really executed** `vp/fakes/dumpargv` (cross-checked with the
argv handed to `pydra.environments.base.execute`).
Oracle (the statement itself, model-free part): for every supplied element, the complete argument
the documentation says it is part of (the element itself, or argstr/separator text around it - from
`vp.ref_argv`) must be one of the received arguments (multiset).  A task that cannot build or run
its command at all is a violation too.  If all elements arrive but the argv differs from the
reference elsewhere, that is C22's subject -> MAY here.  "" values -> MAY.
Mechanism classifier: `retokenise` = received argv equals the harness's own shell re-tokenisation
(shlex.split + outer-quote stripping) of the reference field strings, or that re-tokenisation
raises and the task failed with ValueError.
"""
from __future__ import annotations

from collections import Counter

from vp import env
from vp import gen_shell as G

LEVEL = "exploration"
SPECIAL = set(" \t'\"\\$*;")


def char_classes(s):
    out = set()
    for ch in s:
        if ch in SPECIAL:
            out.add({" ": "space", "\t": "tab", "'": "squote", '"': "dquote", "\\": "backslash",
                     "$": "dollar", "*": "star", ";": "semicolon"}[ch])
        elif ord(ch) > 127:
            out.add("unicode")
    if s.startswith("-"):
        out.add("leading-dash")
    return out


def run_one(case, d, tag):
    obs = G.observe(case, d, G.unique_name("C23T", [case, tag]))
    ref = obs["ref"]
    elems = [(c["name"], t, holder) for c in ref["chunks"] for (t, holder) in c["elems"]]
    elems += [("append_args", a, a) for a in case["append_args"]]
    classes = set()
    for _, t, _ in elems:
        classes |= char_classes(t.rsplit("/", 1)[-1])
    r = {"case": case, "sig": env.sig_of(case), "nontrivial": bool(classes & {"space", "tab", "squote",
         "dquote", "backslash", "dollar", "star", "semicolon"}),
         "counters": {"tasks_run": 1, "elements_supplied": len(elems)},
         "distinct": {"char_classes": sorted(classes),
                      "placements": sorted({f"{f['kind']}:{'...' if f['argstr'].endswith('...') else ''}"
                                            f"{'templ' if '{' in f['argstr'] else ('bare' if not f['argstr'].strip('.') else 'plain')}"
                                            f":{f.get('sep')}" for f in case["fields"]})}}
    r["obs"] = {"ref_argv": ref["argv"], "received": obs["received"], "captured": obs["captured"]}
    if "define_error" in obs:
        return dict(r, verdict="inconclusive", why="definition rejected: " + obs["define_error"])
    if ref["may"]:
        r["counters"].update({"may_" + m: 1 for m in ref["may"]})
        return dict(r, verdict="may", nontrivial=False)
    matches, can_fail, retok = G.retokenised(ref["argv"][:1], ref, case["append_args"], obs["captured"])
    if obs["received"] is None:
        err = obs.get("run_error", "")
        mech = "retokenise" if (can_fail and obs["captured"] is None and
                                err.startswith("ValueError") and "No " in err) else None
        r["counters"]["command_not_built"] = 1
        return dict(r, verdict="violated", mech=mech,
                    witness={"error": err[:300], "ref_argv": ref["argv"], "values": case["values"]})
    r["counters"].update(argv_received_from_process=1, argv_captured=1)
    if obs["captured"][1:] != obs["received"]:
        return dict(r, verdict="violated", mech=None,
                    witness={"what": "process argv differs from argv handed to execute()", **r["obs"]})
    have = Counter(obs["received"])
    need = Counter(ref["argv"])      # how often the reference argv contains each holding argument
    missing = [[n, t, h] for (n, t, h) in elems if have[h] < need[h]]
    r["counters"]["elements_intact"] = len(elems) - len(missing)
    if not missing:
        if obs["captured"] != ref["argv"]:
            r["counters"]["may_intact_but_argv_differs"] = 1
            return dict(r, verdict="may")
        return dict(r, verdict="held")
    mech = "retokenise" if matches else None
    return dict(r, verdict="violated", mech=mech,
                witness={"not_intact": missing[:4], **r["obs"], "retokenised_reference": retok})


def case_batch(batch, wctx):
    out = []
    for i in range(batch["lo"], batch["hi"]):
        case = G.gen_case(wctx.rng(f"c23-{i}"), "c23")
        d = wctx.fresh_dir(f"c{i}")
        try:
            out.append(run_one(case, d, i))
        except Exception as e:
            out.append({"verdict": "inconclusive", "case": case, "why": env.short_tb(e)})
        G.clean_case_dir(d)
    return {"multi": out}


def run(ctx):
    quick = ctx.tier == "quick"
    n = G.QUICK_N.get(ctx.prop, 400) if quick else 4000
    per = 20 if quick else 250
    ctx.rule = ("1-4 unpositioned str/File/list/MultiInputObj fields (plain, bare, templated, sep, '...') + list "
                "append_args, values = strings of 1-6 chars over a hostile alphabet (also as real file names); each "
                "task really executes vp/fakes/dumpargv; non-trivial = some supplied element contains a "
                "space/tab/quote/backslash/$/*/; ; distinct = distinct case spec")
    cases = [{"lo": i, "hi": min(n, i + per)} for i in range(0, n, per)]
    ctx.record_all(ctx.pmap("vp.props.c23:case_batch", cases, nproc=G.NPROC, timeout=300 if quick else 2400))
    ctx.assumptions = ["append_args given as a string is documented to be shell-split and is excluded",
                       "'' values are MAY; argv differences that leave every element intact belong to C22"]


def replay(ctx, rep):
    from pathlib import Path
    d = Path(ctx.scratch) / "replay"
    d.mkdir(parents=True, exist_ok=True)
    r = run_one(rep["case"], d, "replay")
    print(env.jdump({k: r.get(k) for k in ("verdict", "mech", "obs", "witness")}, indent=1))
    return 1 if r["verdict"] == "violated" else 0
