"""C17 — workflow results do not depend on worker or schedule.

Differential monitor: every generated C03 workflow is run on the real engine under several
configurations — sequential debug worker; process pool with 1, 2, 8 processes; concurrency limits;
controller-chosen completion orders (vp.gated) — each in a fresh cache, and the returned outputs
are compared for deep equality (and with the nested-loop reference where it applies).
"""
from __future__ import annotations

import json

from vp import env, ref_wf
from vp.props import c03

LEVEL = "exploration"


def run_cfg(spec, cfg, wctx, case_sig):
    if cfg["kind"] == "gated":
        from vp import gated
        from vp.gen_wf import GenWF
        from pydra.engine.workflow import Workflow
        Workflow.clear_cache()
        sp = json.loads(json.dumps(spec))
        for nd in sp["nodes"]:
            nd["gate"] = True
        rng = wctx.rng(f"o{cfg['order']}" + case_sig)
        g = gated.run_gated(GenWF(spec=json.dumps(sp, sort_keys=True)), wctx, lambda held, ev: rng.choice(held),
                            n_procs=8, max_concurrent=cfg.get("k"))
        if g["timed_out"]:
            raise env.HarnessError("watchdog")
        out = None if g["result"] is None else json.loads(env.jdump(g["result"].outputs.out))
        return out, (None if g["exc"] is None else type(g["exc"]).__name__), env.sig_of(g["order"])
    kw = {}
    if cfg.get("k"):
        kw["max_concurrent"] = cfg["k"]
    out, err, ev = c03.run_spec(spec, wctx, worker=cfg["kind"], n_procs=cfg.get("n_procs", 2), **kw)
    return out, (None if err is None else err.split(":")[0]), None


def decide(case, wctx):
    spec = case["spec"]
    ref = ref_wf.evaluate(spec)
    bad = ref_wf.shared_origin_nodes(spec, ref)
    sig = env.sig_of(spec)
    obs = []
    orders = []
    for cfg in case["configs"]:
        out, err, osig = run_cfg(spec, cfg, wctx, sig)
        obs.append({"cfg": cfg, "out": out, "err": err})
        if osig:
            orders.append(osig)
    njobs = sum(len(r.jobs) for r in ref.values())
    r = {"case": case, "sig": sig, "nontrivial": njobs >= 3 and any(o["err"] is None for o in obs),
         "counters": {"configurations_run": len(obs), "reference_jobs": njobs},
         "distinct": {"release_orders": orders, "config_kinds": [json.dumps(c["cfg"], sort_keys=True) for c in obs]},
         "obs": {"outputs": obs[0]["out"] if not isinstance(obs[0]["out"], list) else obs[0]["out"][:3],
                 "errors": [o["err"] for o in obs]}}
    base = obs[0]
    diff = [o for o in obs[1:] if o["out"] != base["out"] or (o["err"] is None) != (base["err"] is None)]
    if diff:
        r["verdict"] = "violated"
        r["witness"] = {"why": "outputs differ between configurations", "base": base, "differs": diff[:2]}
        return r
    if not bad and base["err"] is None and base["out"] != ref[spec["out"][0]].final():
        r["verdict"] = "violated"
        r["witness"] = {"why": "all configurations agree but differ from the nested-loop reference (see C03)",
                        "got": base["out"], "expected": ref[spec["out"][0]].final()}
        return r
    r["verdict"] = "held"
    return r


def case_one(case, wctx):
    return decide(case, wctx)


def run(ctx):
    quick = ctx.tier == "quick"
    rng = ctx.rng("gen")
    cases = []
    for i in range(16 if quick else 80):
        while True:
            spec = c03.gen_spec(rng, nmax=rng.choice([3, 4, 5]), p_empty=0.15, p_comb=0.4)
            n = sum(len(r.jobs) for r in ref_wf.evaluate(spec).values())
            if 2 <= n <= 12:
                break
        cfgs = [{"kind": "debug"}, {"kind": "cf", "n_procs": rng.choice([1, 2])}, {"kind": "cf", "n_procs": 8, "k": rng.choice([1, 2, 3])},
                {"kind": "gated", "order": 0}]
        if not quick:
            cfgs += [{"kind": "gated", "order": 1, "k": rng.choice([1, 2])}, {"kind": "cf", "n_procs": 4},
                     {"kind": "gated", "order": 2}, {"kind": "cf", "n_procs": 2, "k": 1}]
        cases.append({"spec": spec, "configs": cfgs})
    # directed: nodes that run no job at all (split over an empty list), with and without a combiner, followed by
    # consumers - the two execution loops must agree on what "nothing upstream" means
    E = {"form": "a", "vals": {"a": ["lit", []]}}
    directed = [
        {"nodes": [{"name": "N0", "inputs": {"c": ["lit", "k"]}, "split": E, "comb": ["a"]},
                   {"name": "N1", "inputs": {"a": ["node", "N0"]}}, {"name": "N2", "inputs": {"a": ["node", "N1"]}}], "out": ["N2"]},
        {"nodes": [{"name": "N0", "inputs": {"c": ["lit", "k"]}, "split": E},
                   {"name": "N1", "inputs": {"a": ["node", "N0"]}}, {"name": "N2", "inputs": {"b": ["lit", "z"]}}], "out": ["N1"]},
        {"nodes": [{"name": "N0", "inputs": {"c": ["lit", "k"]}, "split": E},
                   {"name": "N1", "inputs": {"a": ["node", "N0"]}, "comb": ["N0.a"]},
                   {"name": "N2", "inputs": {"a": ["node", "N1"], "b": ["lit", "z"]}}], "out": ["N2"]},
        {"nodes": [{"name": "N0", "inputs": {"b": ["lit", "q"]}},
                   {"name": "N1", "inputs": {"b": ["node", "N0"]}, "split": E, "comb": ["a"]},
                   {"name": "N2", "inputs": {"a": ["node", "N1"], "c": ["node", "N0"]}}], "out": ["N2"]},
    ]
    base_cfgs = [{"kind": "debug"}, {"kind": "cf", "n_procs": 2}, {"kind": "gated", "order": 0}]
    cases = [{"spec": sp, "configs": base_cfgs} for sp in directed] + cases
    ctx.rule = ("4 directed graphs with a node that runs no job (empty split) feeding consumers + C03 graphs with 2-12 jobs, each run under debug, cf(1|2 procs), cf(8 procs, limit k), gated cf with a random "
                "release order (thorough: 8 configurations); non-trivial = >=3 jobs and at least one configuration succeeded; "
                "distinct = distinct graph spec")
    ctx.record_all(ctx.pmap("vp.props.c17:case_one", cases, nproc=5, timeout=1500 if quick else 3400))


def replay(ctx, rep):
    from vp.worker import WCtx
    r = decide(rep["case"], WCtx(ctx.scratch, ctx.seed, ctx.prop, ctx.tier))
    print(env.jdump(r, indent=1))
    return 1 if r["verdict"] == "violated" else 0
