"""C17 — workflow results do not depend on worker or schedule.

Differential monitor: every generated C03 workflow is run on the real engine under several
configurations — sequential debug worker; process pool with 1, 2, 8 processes; concurrency limits;
controller-chosen completion orders (vp.gated) — each in a fresh cache, and the returned outputs
are compared for deep equality (and with the nested-loop reference where it applies).
"""
from __future__ import annotations

import json

from vp import env, ref_wf
from vp.props import c03

LEVEL = "exploration"


def run_cfg(spec, cfg, wctx, case_sig):
    if cfg["kind"] == "gated":
        from vp import gated
        from vp.gen_wf import GenWF
        from pydra.engine.workflow import Workflow
        Workflow.clear_cache()
        sp = json.loads(json.dumps(spec))
        for nd in sp["nodes"]:
            nd["gate"] = True
        rng = wctx.rng(f"o{cfg['order']}" + case_sig)
        g = gated.run_gated(GenWF(spec=json.dumps(sp, sort_keys=True)), wctx, lambda held, ev: rng.choice(held),
                            n_procs=8, max_concurrent=cfg.get("k"))
        if g["timed_out"]:
            raise env.HarnessError("watchdog")
        out = None if g["result"] is None else json.loads(env.jdump(g["result"].outputs.out))
        return out, (None if g["exc"] is None else type(g["exc"]).__name__), env.sig_of(g["order"])
    kw = {}
    if cfg.get("k"):
        kw["max_concurrent"] = cfg["k"]
    out, err, ev = c03.run_spec(spec, wctx, worker=cfg["kind"], n_procs=cfg.get("n_procs", 2), **kw)
    return out, (None if err is None else err.split(":")[0]), None


def decide(case, wctx):
    spec = case["spec"]
    ref = ref_wf.evaluate(spec)
    bad = ref_wf.shared_origin_nodes(spec, ref)
    sig = env.sig_of(spec)
    obs = []
    orders = []
    for cfg in case["configs"]:
        out, err, osig = run_cfg(spec, cfg, wctx, sig)
        obs.append({"cfg": cfg, "out": out, "err": err})
        if osig:
            orders.append(osig)
    njobs = sum(len(r.jobs) for r in ref.values())
    r = {"case": case, "sig": sig, "nontrivial": njobs >= 3 and any(o["err"] is None for o in obs),
         "counters": {"configurations_run": len(obs), "reference_jobs": njobs},
         "distinct": {"release_orders": orders, "config_kinds": [json.dumps(c["cfg"], sort_keys=True) for c in obs]},
         "obs": {"outputs": obs[0]["out"] if not isinstance(obs[0]["out"], list) else obs[0]["out"][:3],
                 "errors": [o["err"] for o in obs]}}
    base = obs[0]
    diff = [o for o in obs[1:] if o["out"] != base["out"] or (o["err"] is None) != (base["err"] is None)]
    if diff:
        r["verdict"] = "violated"
        r["witness"] = {"why": "outputs differ between configurations", "base": base, "differs": diff[:2]}
        return r
    if not bad and base["err"] is None and base["out"] != ref[spec["out"][0]].final():
        r["verdict"] = "violated"
        r["witness"] = {"why": "all configurations agree but differ from the nested-loop reference (see C03)",
                        "got": base["out"], "expected": ref[spec["out"][0]].final()}
        return r
    r["verdict"] = "held"
    return r


def case_one(case, wctx):
    return decide(case, wctx)


def run(ctx):
    quick = ctx.tier == "quick"
    rng = ctx.rng("gen")
    cases = []
    for i in range(16 if quick else 80):
        while True:
            spec = c03.gen_spec(rng, nmax=rng.choice([3, 4, 5]))
            n = sum(len(r.jobs) for r in ref_wf.evaluate(spec).values())
            if 2 <= n <= 12:
                break
        cfgs = [{"kind": "debug"}, {"kind": "cf", "n_procs": rng.choice([1, 2])}, {"kind": "cf", "n_procs": 8, "k": rng.choice([1, 2, 3])},
                {"kind": "gated", "order": 0}]
        if not quick:
            cfgs += [{"kind": "gated", "order": 1, "k": rng.choice([1, 2])}, {"kind": "cf", "n_procs": 4},
                     {"kind": "gated", "order": 2}, {"kind": "cf", "n_procs": 2, "k": 1}]
        cases.append({"spec": spec, "configs": cfgs})
    ctx.rule = ("C03 graphs with 2-12 jobs, each run under debug, cf(1|2 procs), cf(8 procs, limit k), gated cf with a random "
                "release order (thorough: 8 configurations); non-trivial = >=3 jobs and at least one configuration succeeded; "
                "distinct = distinct graph spec")
    ctx.record_all(ctx.pmap("vp.props.c17:case_one", cases, nproc=5, timeout=1500 if quick else 3400))


def replay(ctx, rep):
    from vp.worker import WCtx
    r = decide(rep["case"], WCtx(ctx.scratch, ctx.seed, ctx.prop, ctx.tier))
    print(env.jdump(r, indent=1))
    return 1 if r["verdict"] == "violated" else 0
