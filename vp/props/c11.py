"""C11 — at-most-once execution per identity; rerun and read-only caches as documented.

Workload: histories of up to 8 submissions drawn from a pool of 3 tasks and 2 workflows (the two
workflows share one node identity) into one cache root, with random rerun / propagate_rerun
flags, random lists of pre-populated read-only caches, and planted leftovers (job directory
without result, truncated result file) in the cache root or in a read-only cache.
Observation: the event log (body starts per identity, per step) and a recursive snapshot
(names, sizes, mtimes, content digests) of every read-only cache and of everything outside the
cache root before/after each step.
Oracle: a small cache-protocol model (set of complete identities per location) predicts the
exact per-step execution counts; read-only snapshots must be identical; nothing may appear
outside the cache root.
"""
from __future__ import annotations

import hashlib
import json
import os
from pathlib import Path

from vp import env, evlog

LEVEL = "exploration"

WF = {
    "W1": {"nodes": [{"name": "WA", "inputs": {"a": ["lit", "x"]}}, {"name": "WB", "inputs": {"a": ["node", "WA"]}}], "out": ["WB"]},
    "W2": {"nodes": [{"name": "WA", "inputs": {"a": ["lit", "x"]}}, {"name": "WC", "inputs": {"a": ["node", "WA"]}}], "out": ["WC"]},
    # the same (slow) job identity at two nesting levels of one workflow: both are in flight at the same time
    # under the process-pool worker, and must still share a single execution
    "W3": {"nodes": [{"name": "N1", "tag": "WS", "sleep": 0.4, "inputs": {"a": ["lit", "x"]}},
                     {"name": "N2", "kind": "W", "inputs": {"a": ["lit", "x"]},
                      "sub": {"nodes": [{"name": "S1", "tag": "WS", "sleep": 0.4, "inputs": {"a": ["wfin", "a"]}}], "out": ["S1"]}},
                     {"name": "N3", "tag": "WE", "inputs": {"a": ["node", "N1"], "b": ["node", "N2"]}}], "out": ["N3"]},
}
NODES = {"W1": ["WA(a=x)", "WB(a=WA(a=x))"], "W2": ["WA(a=x)", "WC(a=WA(a=x))"],
         "W3": ["WS(a=x)", "WE(a=WS(a=x),b=WS(a=x))"]}
DUP = {"W3": {"WS(a=x)": 2}}     # identities that occur twice inside one submission
TASKS = {"T1": "T1(a=1)", "T2": "T2(a=2)", "T3": "T3(a=3)"}


def make(name):
    from vp.terms import F
    from vp.gen_wf import GenWF
    if name in TASKS:
        return F(a=name[1], tag=name)
    return GenWF(spec=json.dumps(WF[name], sort_keys=True))


def snap(root: Path):
    out = {}
    if not root.exists():
        return out
    for p in sorted(root.rglob("*")):
        try:
            st = p.lstat()
        except FileNotFoundError:
            continue
        if p.is_file() and not p.is_symlink():
            out[str(p.relative_to(root))] = (st.st_size, st.st_mtime_ns, hashlib.sha1(p.read_bytes()).hexdigest())
        else:
            out[str(p.relative_to(root))] = ("dir" if p.is_dir() else "other",)
    return out


def submit(name, cache_root, readonly, rerun, propagate, worker="debug"):
    from pydra.engine.submitter import Submitter
    from pydra.engine.workflow import Workflow
    Workflow.clear_cache()
    kw = {"n_procs": 2} if worker == "cf" else {}
    with Submitter(worker=worker, cache_root=cache_root, readonly_caches=readonly or None, propagate_rerun=propagate, **kw) as sub:
        res = sub(make(name), rerun=rerun, raise_errors=True)
    return json.loads(env.jdump(res.outputs.out))


def expected_out(name):
    return TASKS[name] if name in TASKS else NODES[name][-1]


def decide(case, wctx):
    base = wctx.fresh_dir("h")
    main, R = base / "main", {"R1": base / "R1", "R2": base / "R2"}
    log = evlog.start(base / "ev.jsonl")
    complete = {"main": set(), "R1": set(), "R2": set()}
    # ---- setup: pre-populate the read-only caches by ordinary runs
    for rname, items in case["prepopulate"].items():
        for it in items:
            submit(it, R[rname], None, False, True)
            complete[rname] |= {it} | set(NODES.get(it, []) if it in NODES else [TASKS[it]])
            if it in NODES:
                complete[rname].add(it)
    problems = []
    steps = []
    outside0 = {k: v for k, v in snap(base).items() if not k.startswith(("main", "ev.jsonl", "hashcache"))}
    planted_shadow = []
    for si, op in enumerate(case["ops"]):
        if op["op"] == "plant":
            # leftover of an interrupted run: job directory without a result (optionally a truncated result)
            t = make(op["task"])
            d = (main if op["where"] == "main" else R[op["where"]]) / t._checksum
            if op["where"] != "main":
                continue      # planting inside read-only caches happens before they are used; keep them pristine here
            if not d.exists():
                main.mkdir(exist_ok=True)
                d.mkdir()
                if op.get("truncated"):
                    (d / "_result.pklz").write_bytes(b"\x80\x05\x95")
                planted_shadow.append(TASKS[op["task"]])
            steps.append({"op": op, "planted": d.name})
            continue
        name, ro = op["task"], op["readonly"]
        before = {r: snap(R[r]) for r in R}
        n0 = len(evlog.read(log))
        err = out = None
        try:
            out = submit(name, main, [R[r] for r in ro], op["rerun"], op["propagate"], op.get("worker", "debug"))
        except Exception as e:  # noqa: BLE001
            err = f"{type(e).__name__}: {str(e)[:200]}"
        ev = evlog.read(log)[n0:]
        starts = {}
        for e in ev:
            if e["ev"] == "start":
                starts[e["term"]] = starts.get(e["term"], 0) + 1
        # ---- model
        visible = set(complete["main"])
        for r in ro:
            visible |= complete[r]
        want = {}
        if name in TASKS:
            ident = TASKS[name]
            if op["rerun"] or ident not in visible:
                want[ident] = 1
                complete["main"].add(ident)
        else:
            if op["rerun"] or name not in visible:
                for n in NODES[name]:
                    if (op["rerun"] and op["propagate"]) or n not in visible:
                        want[n] = 1
                        complete["main"].add(n)
                complete["main"].add(name)
        # an identity occurring twice in one submission is re-executed per occurrence only when rerun propagates
        slack = {k: n for k, n in DUP.get(name, {}).items() if k in want and op["rerun"] and op["propagate"]}
        if all(want.get(k, 0) <= starts.get(k, 0) <= slack.get(k, want.get(k, 0)) for k in set(want) | set(starts)):
            starts_cmp = want
        else:
            starts_cmp = starts
        steps.append({"op": op, "starts": starts, "expected": want, "err": err})
        if err:
            problems.append({"step": si, "why": "submission failed", "error": err})
            break
        if out != expected_out(name):
            problems.append({"step": si, "why": "wrong output", "got": out, "expected": expected_out(name)})
        if starts_cmp != want:
            kind = ("executed although a complete result was available" if any(starts.get(k, 0) > want.get(k, 0) for k in starts)
                    else "not executed although rerun was requested / no result existed")
            shadow = [k for k in starts if starts[k] > want.get(k, 0) and k in planted_shadow
                      and any(k in complete[r] for r in ro) and k not in complete["main"]]
            problems.append({"step": si, "why": kind, "starts": starts, "expected": want, "shadowed": shadow})
            for k in starts:
                complete["main"].add(k)
        for k in list(planted_shadow):
            if k in starts or k in complete["main"]:
                planted_shadow.remove(k) if k in starts else None
        for r in R:
            after = snap(R[r])
            if after != before[r]:
                diff = sorted(set(after.items()) ^ set(before[r].items()))[:4]
                problems.append({"step": si, "why": f"read-only cache {r} was modified", "diff": [d[0] for d in diff],
                                 "listed": r in ro})
        outside = {k: v for k, v in snap(base).items() if not k.startswith(("main", "ev.jsonl", "hashcache", "R1", "R2"))}
        new = sorted(set(outside) - set(outside0))
        if new:
            problems.append({"step": si, "why": "files created outside the cache root", "files": new[:5]})
    nsub = sum(1 for o in case["ops"] if o["op"] == "submit")
    r = {"case": case, "sig": env.sig_of(case), "nontrivial": nsub >= 3,
         "counters": {"submissions": nsub, "body_starts": sum(sum(s.get("starts", {}).values()) for s in steps),
                      "cache_hits_predicted": sum(1 for s in steps if "expected" in s and not s["expected"]),
                      "snapshots_compared": 2 * nsub},
         "obs": {"steps": [{"op": s["op"], "starts": s.get("starts"), "expected": s.get("expected")} for s in steps[:5]]}}
    if problems:
        r["verdict"] = "violated"
        r["witness"] = {"problems": problems[:4], "steps": steps}
        # mechanism: a workflow that contains one identity twice, submitted with a propagated rerun under the process pool:
        # the second execution of the identity wipes the job directory while the finished first one is being read
        # (results are read without the job lock) -> "Could not find results of ... node" (before the lazy.py repair
        # that message itself crashed with AttributeError 'readonly_caches')
        race_whys = ("submission failed", "executed although a complete result was available",
                     "not executed although rerun was requested / no result existed")

        def racy(pb):
            op = case["ops"][pb["step"]]
            return (pb["why"] in race_whys and op.get("task") in DUP and op.get("rerun") and op.get("propagate")
                    and op.get("worker") == "cf")
        # keyed by the history class: every problem sits at a submission that is a propagated rerun, under the process pool,
        # of a workflow that holds one identity twice, and is a failure of that submission or a wrong execution count in it
        # (faces seen: "Could not find results of ... node", "Not able to get any more tasks but the following nodes ... are
        # not done", and an execution-count mismatch reported by the sandbox check run of 2026-09-22)
        if all("step" in pb and racy(pb) for pb in problems):
            r["mech"] = "rerun-duplicate-identity-race"
    else:
        r["verdict"] = "held"
    return r


def case_one(case, wctx):
    return decide(case, wctx)


def gen_case(rng):
    pool = ["T1", "T2", "T3", "W1", "W2", "W3"]
    pre = {"R1": rng.sample(pool, rng.randint(0, 3)), "R2": rng.sample(pool, rng.randint(0, 2))}
    ops = []
    for _ in range(rng.randint(3, 8)):
        if rng.random() < 0.12:
            ops.append({"op": "plant", "task": rng.choice(["T1", "T2", "T3"]), "where": "main", "truncated": rng.random() < 0.5})
        else:
            ops.append({"op": "submit", "task": rng.choice(pool), "rerun": rng.random() < 0.25, "propagate": rng.random() < 0.6,
                        "readonly": sorted(rng.sample(["R1", "R2"], rng.randint(0, 2))),
                        "worker": "cf" if rng.random() < 0.1 else "debug"})
            if ops[-1]["task"] == "W3":
                ops[-1]["worker"] = "cf"
    return {"prepopulate": pre, "ops": ops}


def run(ctx):
    quick = ctx.tier == "quick"
    rng = ctx.rng("gen")
    cases = [gen_case(rng) for _ in range(90 if quick else 1500)]
    ctx.rule = ("histories of 3-8 operations (submit task/workflow with rerun/propagate flags and a read-only list ⊆ {R1,R2}; plant an "
                "incomplete job directory) over 3 tasks + 2 workflows sharing a node identity; non-trivial = >=3 submissions; "
                "distinct = distinct history")
    ctx.record_all(ctx.pmap("vp.props.c11:case_one", cases, nproc=12, timeout=900 if quick else 3400))
    ctx.assumptions = ["deterministic term-valued tasks; read-only caches are populated by ordinary runs before the history starts"]


def replay(ctx, rep):
    from vp.worker import WCtx
    r = decide(rep["case"], WCtx(ctx.scratch, ctx.seed, ctx.prop, ctx.tier))
    print(env.jdump(r, indent=1))
    return 1 if r["verdict"] == "violated" else 0
