"""C37 — graph operations keep a valid topological order.

Monitor: after every operation on a real pydra DiGraph the harness reads `sorted_nodes`
(the observable) and checks it against a mirror adjacency set maintained independently:
each remaining node exactly once, every node after all its remaining predecessors.
Workload: random (quick) and exhaustive + random (thorough) operation sequences that keep
the mirror acyclic and respect the API's own preconditions.
"""
from __future__ import annotations

import itertools
from collections import Counter

from vp import env

LEVEL = "exploration"
NAMES = "abcdef"


class N:
    __slots__ = ("name", "state")

    def __init__(self, name):
        self.name = name
        self.state = None

    def __repr__(self):
        return self.name


# ---- mirror -----------------------------------------------------------------------------

class Mirror:
    def __init__(self):
        self.nodes = []        # names present (in DiGraph.nodes)
        self.edges = set()     # (u, v) among present-or-wip nodes
        self.wip = []          # removed via remove_nodes, connections not yet removed

    def reach(self, u, v):
        """is v reachable from u"""
        seen, st = set(), [u]
        while st:
            x = st.pop()
            if x == v:
                return True
            if x in seen:
                continue
            seen.add(x)
            st += [b for (a, b) in self.edges if a == x]
        return False

    def preds(self, v):
        return [a for (a, b) in self.edges if b == v]

    def desc(self, u):
        out, st = set(), [u]
        while st:
            x = st.pop()
            for (a, b) in self.edges:
                if a == x and b not in out:
                    out.add(b)
                    st.append(b)
        return out


def enabled_ops(m: Mirror, nmax: int, started: bool):
    """All operations the API allows in mirror state m (used by both generators)."""
    ops = []
    absent = [x for x in NAMES[:nmax] if x not in m.nodes and x not in m.wip]
    for x in absent:
        ops.append(["add_node", x])
    if len(absent) >= 2:
        ops.append(["add_nodes", absent[:2]])
    # connections are only added while no node is half-removed (remove_nodes documents the
    # state between remove_nodes and remove_nodes_connections as work-in-progress)
    for u in (m.nodes if not m.wip else []):
        for v in m.nodes:
            if u != v and (u, v) not in m.edges and not m.reach(v, u):
                ops.append(["add_edge", u, v])
    for u in m.nodes:
        # pydra's API: only nodes whose predecessors are gone may be removed
        if not [p for p in m.preds(u)]:
            ops.append(["remove", u])            # remove_nodes + remove_nodes_connections
            ops.append(["remove_mark", u])       # remove_nodes only (connections later)
            ops.append(["remove_err", u])        # remove_nodes + remove_successors_nodes
    for u in m.wip:
        ops.append(["remove_conn", u])
    ops.append(["read"])
    ops.append(["copy"])
    return ops


def apply_mirror(m: Mirror, op):
    k = op[0]
    if k == "add_node":
        m.nodes.append(op[1])
    elif k == "add_nodes":
        m.nodes += op[1]
    elif k == "add_edge":
        m.edges.add((op[1], op[2]))
    elif k == "remove":
        m.nodes.remove(op[1])
        m.edges = {(a, b) for (a, b) in m.edges if a != op[1]}
    elif k == "remove_mark":
        m.nodes.remove(op[1])
        m.wip.append(op[1])
    elif k == "remove_conn":
        m.wip.remove(op[1])
        m.edges = {(a, b) for (a, b) in m.edges if a != op[1]}
    elif k == "remove_err":
        d = m.desc(op[1])
        m.nodes.remove(op[1])
        m.nodes = [x for x in m.nodes if x not in d]
        gone = d | {op[1]}
        m.edges = {(a, b) for (a, b) in m.edges if a not in gone and b not in gone}


def gen_random(rng, nmax, length):
    """initial graph + op list; mirror only"""
    m = Mirror()
    init_nodes = rng.sample(NAMES[:nmax], rng.randint(0, nmax))
    order = list(init_nodes)
    rng.shuffle(order)  # topological order used to draw acyclic edges; nodes list is unsorted
    init_edges = []
    for i, u in enumerate(order):
        for v in order[i + 1:]:
            if rng.random() < 0.4:
                init_edges.append([u, v])
    rng.shuffle(init_edges)
    m.nodes = list(init_nodes)
    m.edges = {tuple(e) for e in init_edges}
    ops = []
    for _ in range(length):
        en = enabled_ops(m, nmax, True)
        kinds = sorted({o[0] for o in en})
        k = rng.choice(kinds)
        op = rng.choice([o for o in en if o[0] == k])
        ops.append(op)
        apply_mirror(m, op)
    return {"init_nodes": init_nodes, "init_edges": init_edges, "ops": ops}


# ---- execution against the real DiGraph -----------------------------------------------------

def check_order(g, m: Mirror):
    s = [nd.name for nd in g.sorted_nodes]
    if Counter(s) != Counter(m.nodes):
        return f"sorted_nodes {s} is not a permutation of remaining nodes {sorted(m.nodes)}"
    idx = {n: i for i, n in enumerate(s)}
    for (u, v) in m.edges:
        if u in idx and v in idx and idx[u] >= idx[v]:
            return f"edge {u}->{v} but order is {s}"
    return None


class Lasso(Exception):
    pass


def install_lasso_monitor():
    """A sorting pass that sorts nothing while nodes remain can never terminate:
    report it (bounded-progress restatement) instead of hanging the harness."""
    from pydra.engine.graph import DiGraph
    if getattr(DiGraph, "_verif_lasso", False):
        return
    orig = DiGraph._sorting

    def _sorting(self, notsorted_list, predecessors):
        sorted_part, remaining = orig(self, notsorted_list, predecessors)
        if not sorted_part and remaining:
            names = tuple(n.name for n in remaining)
            if getattr(self, "_verif_noprog", None) == names:   # loop state repeats: never terminates
                raise Lasso(f"sorting made no progress twice in a row; remaining={list(names)}")
            self._verif_noprog = names
        else:
            self._verif_noprog = None
        return sorted_part, remaining
    DiGraph._sorting = _sorting
    DiGraph._verif_lasso = True


def execute(spec):
    from pydra.engine.graph import DiGraph
    install_lasso_monitor()
    objs = {x: N(x) for x in NAMES}
    m = Mirror()
    m.nodes = list(spec["init_nodes"])
    m.edges = {tuple(e) for e in spec["init_edges"]}
    g = DiGraph(nodes=[objs[x] for x in spec["init_nodes"]],
                edges=[(objs[a], objs[b]) for a, b in spec["init_edges"]])
    checks = 0
    trace = []
    for step, op in enumerate(spec["ops"]):
        k = op[0]
        try:
            if k == "add_node":
                g.add_nodes(objs[op[1]])
            elif k == "add_nodes":
                g.add_nodes([objs[x] for x in op[1]])
            elif k == "add_edge":
                g.add_edges((objs[op[1]], objs[op[2]]))
            elif k == "remove":
                g.remove_nodes(objs[op[1]])
                g.remove_nodes_connections(objs[op[1]])
            elif k == "remove_mark":
                g.remove_nodes(objs[op[1]])
            elif k == "remove_conn":
                g.remove_nodes_connections(objs[op[1]])
            elif k == "remove_err":
                g.remove_nodes(objs[op[1]])
                g.remove_successors_nodes(objs[op[1]])
            elif k == "copy":
                g = g.copy()
            elif k == "read":
                pass
        except Exception as e:
            return {"verdict": "violated", "witness": {"step": step, "op": op,
                    "error": f"operation raised {type(e).__name__}: {e}"}, "checks": checks}
        apply_mirror(m, op)
        # `add_*` before the first sort leave the graph unsorted by design; reading
        # sorted_nodes is the observable and triggers the sort.
        if k == "read" or spec.get("check_every", True):
            try:
                bad = check_order(g, m)
            except Exception as e:
                bad = f"reading sorted_nodes raised {type(e).__name__}: {e}"
            checks += 1
            trace.append(k)
            if bad:
                return {"verdict": "violated", "witness": {"step": step, "op": op, "error": bad},
                        "checks": checks}
    return {"verdict": "held", "checks": checks,
            "final": [nd.name for nd in g.sorted_nodes], "kinds": sorted(set(trace))}


def finish_result(spec, r):
    kinds = sorted({o[0] for o in spec["ops"]})
    nontriv = len(spec["ops"]) >= 2 and (len(spec["init_edges"]) > 0 or "add_edge" in kinds)
    r["case"] = spec
    r["sig"] = env.sig_of(spec)
    r["nontrivial"] = nontriv
    r["obs"] = {"order_checks": r.get("checks"), "final_sorted": r.get("final")}
    r["counters"] = {"order_checks": r.get("checks", 0)}
    r["distinct"] = {"op_kind_sets": ["+".join(kinds)]}
    return r


def case_random(case, wctx):
    out = []
    for i in range(case["lo"], case["hi"]):
        rng = wctx.rng(f"rand{i}")
        spec = gen_random(rng, rng.randint(2, case["nmax"]), rng.randint(1, case["maxlen"]))
        spec["check_every"] = rng.random() < 0.7
        out.append(finish_result(spec, execute(spec)))
    return {"multi": out}


def case_exhaustive(case, wctx):
    """DFS over all op sequences up to depth from a given first op prefix."""
    out = []
    nmax, depth = case["nmax"], case["depth"]

    def rec(m, ops):
        if ops:
            spec = {"init_nodes": [], "init_edges": [], "ops": list(ops)}
        if len(ops) == depth:
            out.append(finish_result(spec, execute(spec)))
            return
        en = [o for o in enabled_ops(m, nmax, True) if o[0] not in case.get("skip", [])]
        # canonical pruning: a trailing read/copy adds nothing new at the leaf other than one check
        for op in en:
            m2 = Mirror()
            m2.nodes, m2.edges, m2.wip = list(m.nodes), set(m.edges), list(m.wip)
            apply_mirror(m2, op)
            rec(m2, ops + [op])

    m = Mirror()
    for op in case["prefix"]:
        apply_mirror(m, op)
    rec(m, list(case["prefix"]))
    return {"multi": out}


def run(ctx):
    quick = ctx.tier == "quick"
    ctx.rule = ("random op sequences (add_nodes, add_edges, remove_nodes[+connections], "
                "remove_successors_nodes, copy, read) over <=6 named nodes keeping the mirror acyclic; "
                "non-trivial = >=2 ops and >=1 edge; distinct = distinct (initial graph, op sequence)")
    n = 4000 if quick else 300000
    per = 250 if quick else 2500
    cases = [{"lo": i, "hi": min(n, i + per), "nmax": 6, "maxlen": 12} for i in range(0, n, per)]
    ctx.record_all(ctx.pmap("vp.props.c37:case_random", cases, timeout=300 if quick else 3000))
    # exhaustive part: all sequences over 3 nodes (quick: depth 5 without read/copy; thorough: 4 nodes depth 6)
    nmax, depth = (3, 5) if quick else (3, 7)
    m0 = Mirror()
    prefixes = []
    for op1 in [o for o in enabled_ops(m0, nmax, True) if o[0] in ("add_node", "add_nodes")]:
        m1 = Mirror()
        apply_mirror(m1, op1)
        for op2 in [o for o in enabled_ops(m1, nmax, True) if o[0] not in ("copy",)]:
            prefixes.append([op1, op2])
    ex_cases = [{"prefix": p, "nmax": nmax, "depth": depth, "skip": ["copy"] if quick else []}
                for p in prefixes]
    res = ctx.pmap("vp.props.c37:case_exhaustive", ex_cases, timeout=300 if quick else 3000)
    before = ctx.evaluations
    ctx.record_all(res)
    ctx.extra["exhaustive_part"] = {"nodes": nmax, "depth": depth, "sequences": ctx.evaluations - before,
                                    "complete": not any(r.get("verdict") == "inconclusive" for r in res)}
    if not quick:
        from vp import suite
        ctx.record(suite.run_suite(ctx, ["pydra/engine/tests/test_graph.py", "pydra/compose/tests/test_workflow_run.py"], "graph"))
    ctx.assumptions = ["node removal only of predecessor-free nodes, as DiGraph.remove_nodes requires",
                       "no duplicate edges, no cycles (C18 covers cycles)"]


def replay(ctx, rep):
    r = execute(rep["case"])
    print(env.jdump(r, indent=1))
    return 1 if r["verdict"] == "violated" else 0
