"""C10 — concurrent submitters of one job share a single execution.

Workload: 2-4 *separate submitter processes* submit the same task (large payload + embedded digest,
fast or slow body) into one shared cache root at (almost) the same time, with and without an
existing result, while a sys.monitoring failpoint tool injects seeded random delays at every
statement of Job.run / _populate_filesystem / result / save / load_result in each process (yield
injection between the critical sections across processes) and emits tagged checkpoints.
Observation: the shared, totally ordered event log (body start/end events from every process) and
each submitter's returned payload.
Oracle: exactly one body `start` for the identity (zero when a result existed); every submitter
returns the complete payload (length + digest) and none raises.  Evidence: the number of distinct
cross-process checkpoint interleavings observed.
"""
from __future__ import annotations

import json
import os
import subprocess
import time
from pathlib import Path

from vp import env, evlog

LEVEL = "exploration"


def spawn(scenario, root, tag, fp, skew):
    e = dict(os.environ)
    e["VERIF_FAILPOINT"] = json.dumps(fp)
    outp = root / f"{tag}.json"
    cmd = [env.PY, "-c", f"import time,runpy,sys; time.sleep({skew}); sys.argv=['vp.fpchild',{scenario!r},{str(root / 'cache')!r},{str(root / 'ev.jsonl')!r},{str(outp)!r}]; runpy.run_module('vp.fpchild', run_name='__main__')"]
    return subprocess.Popen(cmd, cwd=str(env.VERIF), env=e, stdout=subprocess.DEVNULL, stderr=subprocess.PIPE,
                            start_new_session=True), outp


def decide(case, wctx):
    root = wctx.fresh_dir("s")
    (root / "cache").mkdir()
    scenario = case["scenario"]
    rng = wctx.rng(env.sig_of(case))
    if case["preexisting"]:
        p, outp = spawn(scenario, root, "pre", {"mode": "delay", "p": 0.0}, 0)
        try:
            p.wait(timeout=240)
        except subprocess.TimeoutExpired:
            os.killpg(p.pid, 9)
            return {"verdict": "inconclusive", "case": case, "why": "setup run timed out"}
        try:
            os.killpg(p.pid, 9)
        except OSError:
            pass
    n0 = sum(1 for e in evlog.read(root / "ev.jsonl") if e["ev"] == "start")
    procs = []
    for i in range(case["nsub"]):
        fp = {"mode": "delay", "seed": rng.randrange(1 << 30), "max_ms": case["max_ms"], "p": 0.6, "checkpoints": True}
        procs.append(spawn(scenario, root, f"sub{i}", fp, round(rng.random() * case["skew"], 3)))
    results = []
    timed_out = False
    deadline = time.time() + 300
    for p, outp in procs:
        try:
            p.wait(timeout=max(1, deadline - time.time()))
        except subprocess.TimeoutExpired:
            try:
                os.killpg(p.pid, 9)
            except OSError:
                p.kill()
            timed_out = True
        r = {}
        if outp.exists():
            try:
                r = json.loads(outp.read_text())
            except ValueError:
                pass
        r["rc"] = p.returncode
        try:
            os.killpg(p.pid, 9)      # pool children of the submitter must not outlive the case
        except OSError:
            pass
        if not r.get("out") and not r.get("err"):
            r["stderr"] = (p.stderr.read() or b"").decode(errors="replace")[-300:]
        results.append(r)
    ev = evlog.read(root / "ev.jsonl")
    starts = sum(1 for e in ev if e["ev"] == "start") - n0
    pids = []
    for e in ev:
        if e["ev"] == "cp" and e["pid"] not in pids:
            pids.append(e["pid"])
    inter = [(pids.index(e["pid"]), e["at"]) for e in ev if e["ev"] == "cp"]
    switches = sum(1 for a, b in zip(inter, inter[1:]) if a[0] != b[0])
    r = {"case": case, "sig": env.sig_of(case), "nontrivial": case["nsub"] >= 2 and switches >= 1,
         "counters": {"submitter_processes": case["nsub"], "body_starts": max(starts, 0), "checkpoints": len(inter),
                      "process_switches_in_log": switches},
         "distinct": {"interleavings": [env.sig_of(inter)]},
         "obs": {"starts": starts, "outs": [x.get("out") for x in results], "errs": [(x.get("err") or "")[:80] for x in results]}}
    if timed_out:
        return {**r, "verdict": "inconclusive", "why": "a submitter exceeded the wall-clock watchdog"}
    if any(x["rc"] != 0 and not x.get("err") for x in results):
        return {**r, "verdict": "inconclusive", "why": f"submitter crashed: {[x.get('stderr') for x in results]}"[:400]}
    problems = []
    want = 0 if case["preexisting"] else 1
    if starts != want:
        problems.append({"why": f"body executed {starts} times for one identity (expected {want})"})
    for i, x in enumerate(results):
        if x.get("err"):
            problems.append({"why": "a submitter raised", "submitter": i, "error": x["err"]})
        elif x.get("out") != {"n": 30000, "digest_ok": True}:
            problems.append({"why": "a submitter returned a partial/wrong payload", "submitter": i, "out": x.get("out")})
    if problems:
        r["verdict"] = "violated"
        r["witness"] = {"problems": problems[:4], "log_tail": [[e["ev"], e.get("pid"), e.get("at") or e.get("term")] for e in ev[-30:]]}
    else:
        r["verdict"] = "held"
    return r


def case_one(case, wctx):
    return decide(case, wctx)


def run(ctx):
    quick = ctx.tier == "quick"
    rng = ctx.rng("gen")
    cases = []
    for i in range(24 if quick else 160):
        cases.append({"i": i, "scenario": rng.choice(["big", "bigslow", "bigslow", "bigslow_cf"]), "nsub": rng.randint(2, 4),
                      "preexisting": rng.random() < 0.25, "max_ms": rng.choice([2, 10, 30]),
                      "skew": rng.choice([0.0, 0.02, 0.05])})
    ctx.rule = ("2-4 submitter processes of one task (fast / slow body, debug or cf worker) into a shared cache root, with or without "
                "an existing result, seeded per-process delay injection at every traced statement; non-trivial = >=2 submitters and "
                ">=1 cross-process switch observed between checkpoints; distinct = distinct case spec (interleavings reported separately)")
    ctx.record_all(ctx.pmap("vp.props.c10:case_one", cases, nproc=6, timeout=1500 if quick else 3400))
    ctx.assumptions = ["interleavings inside one statement (e.g. inside pickle.dump) are left to the OS scheduler; delays are injected "
                       "only at statement boundaries of the traced functions"]


def replay(ctx, rep):
    from vp.worker import WCtx
    r = decide(rep["case"], WCtx(ctx.scratch, ctx.seed, ctx.prop, ctx.tier))
    print(env.jdump(r, indent=1))
    return 1 if r["verdict"] == "violated" else 0
