"""C08 — value hashing is deterministic, discriminating and context-free.

Monitor (in-process, real `pydra.utils.hash.hash_function / hash_object / Cache`): values are
generated from the grammar in vp.gen_values; for every value the check observes

 * determinism: the value rebuilt with fresh identities and 3 other dict/set insertion orders must
   hash to the same digest (or be rejected with an exception every time);
 * discrimination: a one-aspect mutation of the value (content, scalar type, container kind,
   nesting, order of a sequence, array shape / dtype, class, function body / closure cell ...) must
   hash differently; in addition all digests of a batch, and of the whole run, are grouped and a
   digest shared by two different canonical contents is a collision;
 * context freedom: the digest memoised for the value while hashing `[w, v]`, `{k: v}`, `(v, v)` and
   while re-using one `Cache` for two hash_function calls (what Task._compute_hashes does) must be
   the digest of the value hashed alone.

Oracle: the harness' `canon(spec)` (type tag + content; dtype + shape + values for arrays; table
identity for functions / types).  MAY class (never a violation): values pydra refuses to hash
(TypeError from sorting mixed keys, RecursionError) provided the refusal is the same for every
insertion order; cyclic structures, whose digest depends on the entry point (`recursion-placeholder`).
"""
from __future__ import annotations

from vp import env
from vp import gen_values as G

LEVEL = "exploration"
PER = 250


def _h(v, cache=None):
    from pydra.utils.hash import hash_function
    try:
        return hash_function(v) if cache is None else hash_function(v, cache=cache)
    except RecursionError:
        return "REJECT:RecursionError"
    except Exception as e:  # rejection is an observable outcome
        return "REJECT:" + type(e).__name__


def gen_item(rng, thorough=False):
    spec = G.gen_value(rng, depth=rng.choice([1, 2, 2, 3, 3, 4 if thorough else 3]))
    if rng.random() < 0.004:
        spec = ["cyc", rng.randint(0, 3)]
    mut = G.mutate(rng, spec)
    if rng.random() < 0.006:
        # a large 2-d array (more elements than any chunk / buffer size a serializer is likely to use): the variants build it
        # C- or Fortran-ordered (equal values), the mutation is the transposed view of the same buffer (other values)
        r, c = rng.choice([(100, 100), (96, 128), (130, 70)])
        dt = rng.choice(["int64", "float64", "int32"])
        k = rng.randrange(1, 997)
        vals = [(i * 7919 + k) % 1009 for i in range(r * c)]
        spec = ["nd", dt, [r, c], vals]
        mut = ("np-layout", ["ndTT", dt, [r, c], vals], ["nd", "ndTT"])
    other = G.gen_value(rng, depth=2)
    return {"spec": spec, "mut": mut, "other": other, "variants": [rng.randrange(1, 10**6) for _ in range(3)]}


def check_item(item):
    """Returns (verdict, mech, witness, obs, counters)."""
    from pydra.utils.hash import Cache, hash_object
    spec, mut, other = item["spec"], item["mut"], item["other"]
    cnt = {"values_hashed": 0, "determinism_checks": 0, "mutation_pairs": 0, "context_checks": 0}
    bad = []
    v0 = G.build(spec)
    h0 = _h(v0)
    cnt["values_hashed"] += 1
    # determinism over identities and insertion orders
    hs = {0: h0}
    for var in item["variants"]:
        hs[var] = _h(G.build(spec, var))
        cnt["determinism_checks"] += 1
    if len(set(hs.values())) > 1:
        bad.append({"kind": "nondeterministic", "mech": G.classify_unstable(spec), "hashes": hs})
    rejected = h0.startswith("REJECT")
    # discrimination on the one-aspect mutation
    aspect = None
    if mut is not None and not rejected:
        aspect, spec2, pair = mut
        h2 = _h(G.build(spec2))
        cnt["mutation_pairs"] += 1
        cnt["aspect_" + aspect] = 1
        if h2 == h0:
            bad.append({"kind": "collision", "aspect": aspect, "mech": G.classify_collision(spec, spec2),
                        "differs": pair, "hash": h0})
    # context freedom
    may = None
    if not rejected and spec[0] != "cyc":
        w = G.build(other)
        for emb in ("list", "dict", "twice", "shared-cache"):
            v = G.build(spec)
            c = Cache()
            try:
                if emb == "list":
                    hash_object([w, v], cache=c)
                elif emb == "dict":
                    hash_object({"k": v, "j": w}, cache=c)
                elif emb == "twice":
                    v2 = G.build(spec)
                    ha, hb = _h((v, v)), _h((v, v2))
                    if ha != hb:
                        bad.append({"kind": "aliasing", "mech": None, "same_identity": ha, "fresh_copy": hb})
                    hash_object((v, w, v), cache=c)
                else:
                    hash_object(w, cache=c)
                    hash_object(v, cache=c)
            except Exception:
                continue  # `other` not hashable: nothing observed
            cnt["context_checks"] += 1
            got = c[id(v)].hex() if id(v) in c else None
            if got != h0:
                bad.append({"kind": "context", "embedding": emb, "alone": h0, "in_context": got, "mech": None})
    elif spec[0] == "cyc":
        a = G.build(spec)
        ha, hb = _h(a), _h(a[1])
        c = Cache()
        hash_object(a, cache=c)
        inner = c[id(a[1])].hex()
        if inner != hb:
            may = "recursion-placeholder"
        cnt["cyclic_values"] = 1
    if rejected:
        may = may or "rejected"
        cnt["rejected_values"] = 1
    obs = {"hash": h0, "aspect": aspect}
    if bad:
        mechs = {b["mech"] for b in bad}
        return "violated", (mechs.pop() if len(mechs) == 1 else None), bad, obs, cnt
    return ("may" if may else "held"), may, None, obs, cnt


def batch(case, wctx):
    out, table = [], {}
    thorough = wctx.tier != "quick"
    shown = {}
    for i in range(case["lo"], case["hi"]):
        item = gen_item(wctx.rng(f"v{i}"), thorough)
        verdict, mech, wit, obs, cnt = check_item(item)
        spec = item["spec"]
        nontriv = G.size(spec) >= 2 or spec[0] in ("nd", "ndT", "obj")
        r = {"verdict": verdict, "sig": env.sig_of(spec), "nontrivial": nontriv, "counters": cnt, "case": None}
        if verdict == "violated":
            # one result per mechanism seen on this value (a value can exhibit several)
            groups = {}
            for b in wit:
                groups.setdefault(b["mech"], []).append(b)
            for m, bs in sorted(groups.items(), key=lambda kv: str(kv[0])):
                k = m or "?"
                shown[k] = shown.get(k, 0) + 1
                rr = dict(r, mech=m, witness=bs, case={"i": i, "spec": spec, "thorough": thorough}, counters={})
                if shown[k] > (4 if m else 25):
                    rr["witness"] = {"elided": True, "kinds": [b["kind"] for b in bs]}
                out.append(rr)
            r["verdict"] = "held"  # carrier of the counters only; the verdicts are the results above
            r["nontrivial"] = False
        elif len(out) < 2 or verdict == "may":
            r.update(case={"i": i, "spec": spec} if len(out) < 2 else None, obs=obs)
        out.append(r)
        if not obs["hash"].startswith("REJECT"):
            table.setdefault(obs["hash"], {})[G.canon(spec)] = i
    # group the batch by digest; cross-batch grouping is done by the parent on (digest, canon sig, i)
    return {"multi": out, "table": [[h, env.sig_of(c), i] for h, d in table.items() for c, i in d.items()]}


def group_collisions(ctx, tables, thorough):
    """digest -> {canon sig: item index}; a digest with two canons is a collision between two
    independently generated values (regenerated here from their indices for classification)."""
    by = {}
    for t in tables:
        for h, cs, i in t:
            by.setdefault(h, {}).setdefault(cs, i)
    ctx.count("pool_values_grouped", sum(len(d) for d in by.values()))
    ctx.count("pool_distinct_digests", len(by))
    res = []
    for h, d in by.items():
        if len(d) < 2:
            continue
        idx = sorted(d.values())
        a = gen_item(ctx.rng(f"v{idx[0]}"), thorough)["spec"]
        for j in idx[1:]:
            b = gen_item(ctx.rng(f"v{j}"), thorough)["spec"]
            mech = G.classify_collision(a, b)
            res.append({"verdict": "violated", "mech": mech, "sig": env.sig_of([a, b]), "nontrivial": True,
                        "case": {"pool_pair": [idx[0], j], "a": a, "b": b},
                        "witness": [{"kind": "pool-collision", "hash": h, "a": a, "b": b}],
                        "counters": {"pool_collisions": 1}})
    return res


def run(ctx):
    quick = ctx.tier == "quick"
    n = 8000 if quick else 120000
    ctx.rule = ("values from the vp.gen_values grammar (scalars, nested containers incl. sets of frozensets and "
                "dicts keyed by them, attrs/plain/slots objects, types, functions, numpy arrays/scalars, subclasses of "
                "builtins); each is hashed alone, rebuilt in 3 other insertion orders, against a one-aspect mutation, and "
                "inside 4 embeddings; non-trivial = container/array/object value; distinct = distinct value specs")
    cases = [{"lo": i, "hi": min(n, i + PER)} for i in range(0, n, PER)]
    res = ctx.pmap("vp.props.c08:batch", cases, nproc=8 if quick else 16, timeout=600 if quick else 3000)
    tables = [r.pop("table") for r in res if isinstance(r, dict) and "table" in r]
    ctx.record_all(res)
    ctx.record_all(group_collisions(ctx, tables, not quick))
    ctx.assumptions = ["canon() of the harness is the notion of 'equal content': -0.0 != 0.0, range(a,b,c) by its repr, "
                       "OrderedDict order-sensitive; table functions/types are pairwise different computations/types"]


def replay(ctx, rep):
    c = rep["case"]
    if "pool_pair" in c:
        ha, hb = _h(G.build(c["a"])), _h(G.build(c["b"]))
        print(env.jdump({"a": c["a"], "b": c["b"], "ha": ha, "hb": hb, "mech": G.classify_collision(c["a"], c["b"])}))
        return 1 if ha == hb else 0
    item = gen_item(ctx.rng(f"v{c['i']}"), c.get("thorough", False))
    verdict, mech, wit, obs, cnt = check_item(item)
    print(env.jdump({"spec": item["spec"], "verdict": verdict, "mech": mech, "witness": wit}, indent=1))
    return 1 if verdict == "violated" else 0
