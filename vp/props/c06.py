"""C06 — a cache hit returns what executing the task now would return.

Monitor: pairs of deterministic tasks (t1, t2) that differ in exactly one semantically relevant
aspect are submitted through the real pydra call path (`task(cache_root=..., worker="debug")`):
each alone into a fresh cache root (= "what executing now returns"; for python tasks the harness also
calls the function / `describe` directly), then t1;t2 into one shared root and t2;t1 into another.
Observed: returned outputs, task checksums, number of cache directories created, execution counter.

Verdict: violated iff a task submitted into the shared root returns an output different from its
own fresh execution (the *wrong result*).  Equal checksums alone are only counted
(`shared_identity_pairs`).  A pair whose two fresh outputs are equal (e.g. only `help` differs) is a
control: it is trivial and must hold.  Pairs pydra refuses to run (unhashable input) are trivial.

Aspects: input value content / scalar type / container kind / nesting / order / numpy shape, dtype /
class / function-valued input (vp.gen_values mutations); function body, default, lambda body, closure
cell, workflow-constructor closure; shell executable, argstr, position, sep, formatter, flag argstr,
input values; file content.
"""
from __future__ import annotations

import os

from vp import env
from vp import gen_values as G

LEVEL = "exploration"
PER = 4


# ---- pair generation -----------------------------------------------------------------------------

def gen_shell_pair(rng):
    lst = rng.random() < 0.4
    a = {"type": "list" if lst else "str", "argstr": rng.choice(["-a", "--alpha", "-a{a}", "--k={a}"]),
         "position": rng.choice([1, 3])}
    if lst:
        a["sep"] = rng.choice([",", ":", "+"])
        a["argstr"] = rng.choice(["-a", "--alpha", "-a..."])
    if rng.random() < 0.25:
        a["formatter"] = "fmt_x"
    base = {"k": "shell", "sp": {"exe": "c06_argv", "a": a, "flag": "-v"},
            "a": ["p", "q"] if lst else rng.choice(["p", "q r", "-x"]), "b": rng.randint(0, 9),
            "flag": rng.random() < 0.6}
    aspects = ["argstr", "position", "executable", "input-a", "input-b", "help", "argstr", "position"]
    if lst:
        aspects += ["sep", "sep"]
    if base["flag"]:
        aspects += ["flag-argstr", "flag-argstr"]
    aspects += ["formatter"]
    asp = rng.choice(aspects)
    import copy
    t2 = copy.deepcopy(base)
    a2 = t2["sp"]["a"]
    if asp == "argstr":
        if "formatter" in a2:
            del a2["formatter"]
            t2["sp"]["a"]["argstr"] = a["argstr"]  # formatter -> plain argstr
        else:
            opts = ["-a", "--alpha", "-z"] + ([] if lst else ["-a{a}", "--k={a}"]) + (["-a..."] if lst else [])
            a2["argstr"] = rng.choice([o for o in opts if o != a["argstr"]])
    elif asp == "position":
        a2["position"] = 4 - a["position"]
    elif asp == "executable":
        t2["sp"]["exe"] = "c06_argv2"
    elif asp == "input-a":
        t2["a"] = ["p", "z"] if lst else base["a"] + "2"
    elif asp == "input-b":
        t2["b"] = base["b"] + 1
    elif asp == "help":
        a2["help"] = "another help text"
    elif asp == "sep":
        a2["sep"] = rng.choice([s for s in [",", ":", "+"] if s != a["sep"]])
    elif asp == "flag-argstr":
        t2["sp"]["flag"] = "-q"
    elif asp == "formatter":
        a2["formatter"] = "fmt_y" if a.get("formatter") == "fmt_x" else "fmt_x"
    meta = asp in ("argstr", "position", "sep", "flag-argstr", "formatter")
    return {"aspect": "shell-" + asp, "t1": base, "t2": t2, "metadata": meta}


def gen_pair(rng, i):
    k = rng.random()
    if k < 0.55:
        for _ in range(20):
            spec = G.gen_value(rng, depth=rng.choice([1, 2, 2, 3]))
            m = G.mutate(rng, spec)
            if m:
                return {"aspect": "value-" + m[0], "t1": {"k": "value", "spec": spec}, "t2": {"k": "value", "spec": m[1]}}
    if k < 0.68:
        # targeted: array shape / dtype / memory layout, the aspect the statement names explicitly
        for _ in range(20):
            spec = G.gen_array(rng)
            m = G.mutate(rng, spec, want=("np-shape", "np-dtype", "np-dtype-cast", "np-layout", "np-layout", "np-content"))
            if m:
                return {"aspect": "value-" + m[0], "t1": {"k": "value", "spec": spec}, "t2": {"k": "value", "spec": m[1]}}
    if k < 0.72:
        # targeted: two arrays with the same shape, dtype and raw buffer but another memory layout (a transposed
        # view), i.e. other logical content
        r, c = rng.choice([(2, 3), (3, 2), (2, 2), (3, 4), (100, 100), (96, 128)])   # the last two exceed any chunk size
        dt = rng.choice(["int64", "float64", "int32", "uint8"])
        vals = list(range(1, r * c + 1)) if r * c < 100 else [(i * 7919) % 251 for i in range(r * c)]
        rng.shuffle(vals)
        return {"aspect": "value-np-layout", "t1": {"k": "value", "spec": ["nd", dt, [r, c], vals]},
                "t2": {"k": "value", "spec": ["ndTT", dt, [r, c], vals]}}
    if k < 0.76:
        a, b, asp = rng.choice([("add1", "add2", "func-body"), ("dflt1", "dflt2", "func-default"),
                                ("lam1", "lam2", "func-lambda"), ("clo1", "clo2", "func-closure")])
        if rng.random() < 0.5:
            a, b = b, a
        x = rng.randint(2, 9)
        return {"aspect": asp, "t1": {"k": "fn", "name": a, "x": x}, "t2": {"k": "fn", "name": b, "x": x}}
    if k < 0.77:
        x = rng.randint(2, 9)
        k1 = rng.randint(1, 5)
        return {"aspect": "workflow-closure", "t1": {"k": "wf", "kk": k1, "x": x}, "t2": {"k": "wf", "kk": k1 + 1, "x": x}}
    if k < 0.82:
        c1 = rng.choice(["AAAA", "hello", ""])
        c2 = rng.choice(["BBBB", "hello!", "x"])
        same_path = rng.random() < 0.5
        return {"aspect": "file-content", "t1": {"k": "file", "name": "in.txt", "content": c1, "mtime": 1_600_000_000},
                "t2": {"k": "file", "name": "in.txt" if same_path else "in2.txt", "content": c2, "mtime": 1_600_000_100}}
    return gen_shell_pair(rng)


# ---- execution --------------------------------------------------------------------------------------

def make_task(td, workdir):
    from vp import cache_tasks as T
    k = td["k"]
    if k == "value":
        return T.Describe(x=G.build(td["spec"]))
    if k == "fn":
        return T.fn_task(td["name"])(x=td["x"])
    if k == "wf":
        return T.wf_task(td["kk"])(x=td["x"])
    if k == "file":
        p = workdir / td["name"]
        p.write_text(td["content"])
        os.utime(p, (td["mtime"], td["mtime"]))
        return T.ReadFile(f=p)
    if k == "shell":
        return T.shell_task(td["sp"])(a=td["a"], b=td["b"], flag=td["flag"])
    raise env.HarnessError(f"bad task desc {td}")


def direct(td):
    """Ground truth that needs no pydra at all (where available)."""
    if td["k"] == "value":
        return G.describe(G.build(td["spec"]))
    if td["k"] == "fn":
        return G.FUNCS[td["name"]][0](td["x"])
    if td["k"] == "wf":
        return td["x"] + td["kk"]
    if td["k"] == "file":
        return td["content"]
    return None


def submit(td, root, workdir):
    """Build the task anew and call it.  -> (status, output, checksum)"""
    from pydra.engine.workflow import Workflow
    Workflow.clear_cache()
    try:
        task = make_task(td, workdir)
    except env.HarnessError:
        raise
    except Exception as e:
        return "build-error", type(e).__name__, None
    try:
        cs = task._checksum
    except Exception as e:
        return "rejected", type(e).__name__, None
    try:
        outs = task(cache_root=root, worker="debug")
    except Exception as e:
        return "run-error", type(e).__name__ + ":" + str(e)[:120], cs
    out = outs.stdout if td["k"] == "shell" else outs.out
    return "ok", out, cs


def classify(pair):
    asp = pair["aspect"]
    if asp.startswith("value-"):
        return G.classify_collision(pair["t1"]["spec"], pair["t2"]["spec"])
    if asp in ("func-closure", "workflow-closure"):
        return "closure-not-hashed"
    if asp == "func-lambda":
        return "lambda-body-not-hashed"
    if asp.startswith("shell-") and pair.get("metadata"):
        return "field-metadata-not-hashed"
    return None


def run_pair(pair, wctx):
    d = wctx.fresh_dir("p")
    files = d / "files"
    files.mkdir()
    cnt = {"pairs": 1, "submissions": 0, "aspect_" + pair["aspect"]: 1}
    obs = {}
    fresh = {}
    for nm in ("t1", "t2"):
        root = d / ("fresh_" + nm)
        root.mkdir()
        st, out, cs = submit(pair[nm], root, files)
        cnt["submissions"] += 1
        fresh[nm] = (st, out, cs)
        dr = direct(pair[nm])
        if st == "ok" and dr is not None and out != dr:
            raise env.HarnessError(f"fresh execution {out!r} differs from direct ground truth {dr!r}")
    obs["fresh"] = {k: [v[0], v[1] if len(str(v[1])) < 200 else str(v[1])[:200], v[2]] for k, v in fresh.items()}
    if fresh["t1"][0] != "ok" or fresh["t2"][0] != "ok":
        cnt["pairs_not_runnable"] = 1
        return {"verdict": "held", "nontrivial": False, "sig": env.sig_of(pair), "case": pair, "obs": obs, "counters": cnt}
    distinguishable = fresh["t1"][1] != fresh["t2"][1]
    same_id = fresh["t1"][2] == fresh["t2"][2]
    if same_id:
        cnt["shared_identity_pairs"] = 1
    bad = []
    for order in (("t1", "t2"), ("t2", "t1")):
        root = d / ("shared_" + order[0])
        root.mkdir()
        for nm in order:
            st, out, cs = submit(pair[nm], root, files)
            cnt["submissions"] += 1
            ndirs = len([p for p in root.iterdir() if p.is_dir()])
            if (st, out) != fresh[nm][:2]:
                bad.append({"order": list(order), "task": nm, "returned": [st, out], "executing_now_returns":
                            list(fresh[nm][:2]), "checksum": cs, "other_checksum": fresh["t2" if nm == "t1" else "t1"][2],
                            "cache_dirs": ndirs})
        obs.setdefault("cache_dirs", []).append(ndirs)
    if bad:
        cnt["wrong_results_returned"] = len(bad)
    r = {"sig": env.sig_of(pair), "nontrivial": distinguishable, "case": pair, "obs": obs, "counters": cnt,
         "distinct": {"aspects": [pair["aspect"]]}}
    if bad:
        r.update(verdict="violated", mech=classify(pair), witness={"aspect": pair["aspect"], "bad": bad[:2]})
    else:
        r["verdict"] = "held"
    return r


def batch(case, wctx):
    out = []
    for i in range(case["lo"], case["hi"]):
        pair = gen_pair(wctx.rng(f"p{i}"), i)
        try:
            out.append(run_pair(pair, wctx))
        except env.HarnessError as e:
            out.append({"verdict": "inconclusive", "case": pair, "why": "harness: " + str(e)})
    return {"multi": out}


def run(ctx):
    quick = ctx.tier == "quick"
    n = 120 if quick else 1600
    ctx.rule = ("pairs of tasks differing in one aspect (value mutation from vp.gen_values; function body/default/"
                "lambda/closure; workflow-constructor closure; shell argstr/position/sep/formatter/flag/executable/"
                "inputs; file content), each run fresh and in both orders into a shared cache root; non-trivial = the "
                "two fresh outputs differ; distinct = distinct pair descriptions")
    cases = [{"lo": i, "hi": min(n, i + PER)} for i in range(0, n, PER)]
    ctx.record_all(ctx.pmap("vp.props.c06:batch", cases, nproc=8 if quick else 16, timeout=600 if quick else 2400))
    ctx.assumptions = ["'what executing now would return' = the same task submitted into a fresh cache root (and the "
                       "direct function call for python tasks)", "module globals referenced by a function body are not "
                       "varied (the statement names body and closure only)"]


def replay(ctx, rep):
    import types
    from vp.worker import WCtx
    w = WCtx(str(ctx.scratch), ctx.seed, "C06", ctx.tier)
    r = run_pair(rep["case"], w)
    print(env.jdump({k: r.get(k) for k in ("verdict", "mech", "witness", "obs")}, indent=1))
    return 1 if r["verdict"] == "violated" else 0
