"""C01 — split expands to exactly the outer/inner product of the split inputs.

Two observation layers, both on the real code:
 (a) State level: State(...).prepare_states -> states_ind / states_val,
 (b) end to end: Task.split(tree, **lists)(cache_root=..., worker=debug|cf): the event log of
     term-valued body invocations and the returned output list.
Oracle: vp.ref_split.expand (written from the property statement).
"""
from __future__ import annotations

import itertools
from collections import Counter

from vp import env, evlog, ref_split as R

LEVEL = "exploration"
FIELDS = ["a", "b", "c", "d"]


def gen_tree(rng, fields):
    """random nested tree using each field once (n-ary operators allowed)"""
    if len(fields) == 1:
        return fields[0]
    k = rng.randint(2, len(fields))
    cuts = sorted(rng.sample(range(1, len(fields)), k - 1))
    blocks = [fields[i:j] for i, j in zip([0] + cuts, cuts + [len(fields)])]
    return {rng.choice("oi"): [gen_tree(rng, b) for b in blocks]}


def rank(t):
    """number of axes of a splitter tree, None if no list assignment can make it valid"""
    if isinstance(t, str):
        return 1
    subs = [rank(x) for x in (t.get("o") or t.get("i"))]
    if any(x is None for x in subs):
        return None
    if "o" in t:
        return sum(subs)
    return subs[0] if len(set(subs)) == 1 else None


def force(t, shape, lens):
    if isinstance(t, str):
        lens[t] = shape[0]
    elif "o" in t:
        i = 0
        for x in t["o"]:
            k = rank(x)
            force(x, shape[i:i + k], lens)
            i += k
    else:
        for x in t["i"]:
            force(x, shape, lens)


def gen_lens(rng, tree, fields, hi=3, want_valid=True):
    draw = lambda: 0 if rng.random() < 0.06 else rng.randint(1, hi)  # noqa: E731
    lens = {f: draw() for f in fields}
    k = rank(tree)
    if want_valid and k is not None:
        force(tree, tuple(draw() for _ in range(k)), lens)
    return lens


def values(lens):
    return {f: [f"{f}{i}" for i in range(n)] for f, n in lens.items()}


def term_of(d, vals, const_e="k"):
    args = [(f, vals[f][d[f]]) for f in FIELDS if f in d]
    args.append(("e", const_e))
    return "F(" + ",".join(f"{k}={v}" for k, v in args) + ")"


def reference(case):
    tree, lens = case["tree"], case["lens"]
    try:
        exp, shape, axes = R.expand(R.to_py(tree), lens)
    except R.ShapeError as e:
        return None, str(e)
    return exp, None


def is_may(case):
    """inner product of operands with equal element count but different shape"""
    lens = case["lens"]

    def walk(t):
        if isinstance(t, str):
            return (lens[t],), False
        subs = [walk(x) for x in (t.get("o") or t.get("i"))]
        may = any(m for _, m in subs)
        if "o" in t:
            return tuple(itertools.chain(*[s for s, _ in subs])), may
        shapes = [s for s, _ in subs]

        def size(sh):
            n = 1
            for x in sh:
                n *= x
            return n
        if len(set(shapes)) > 1 and len({size(s) for s in shapes}) == 1:
            may = True
        return shapes[0], may
    return walk(case["tree"])[1]


def run_state(case):
    from pydra.engine.state import State
    tree = R.to_py(case["tree"])

    def pref(t):
        if isinstance(t, str):
            return "N." + t
        return type(t)(pref(x) for x in t)
    vals = values(case["lens"])
    st = State("N", splitter=pref(tree))
    st.prepare_states(inputs={"N." + f: v for f, v in vals.items()})
    ind = [{k[2:]: v for k, v in d.items()} for d in st.states_ind]
    val = [{k[2:]: v for k, v in d.items()} for d in st.states_val]
    return ind, val


def run_e2e(case, wctx):
    from vp.terms import F
    from pydra.engine.submitter import Submitter
    vals = values(case["lens"])
    log = evlog.start(wctx.fresh_dir("log") / "ev.jsonl")
    cache = wctx.fresh_dir("cache")
    task = F(e="k").split(R.to_py(case["tree"]), **vals)
    worker = case.get("worker", "debug")
    kw = {"n_procs": 2} if worker == "cf" else {}
    with Submitter(worker=worker, cache_root=cache, **kw) as sub:
        res = sub(task, raise_errors=True)
    return res.outputs.out, evlog.read(log)


def decide(case, wctx):
    exp, shape_err = reference(case)
    vals = values(case["lens"])
    fields = R.fields_of(R.to_py(case["tree"]))
    r = {"case": case, "sig": env.sig_of(case), "counters": {}}
    n_exp = None if exp is None else len(exp)
    r["nontrivial"] = bool(len(fields) >= 2 or (n_exp or 0) >= 2)
    # ---- observe
    log = []
    try:
        if case["mode"] == "state":
            ind, val = run_state(case)
            got_terms = [term_of(d, vals) for d in ind]
            val_ok = all(v == {f: vals[f][d[f]] for f in d} for d, v in zip(ind, val))
            err = None
        else:
            evlog_before = None
            out, log = run_e2e(case, wctx)
            got_terms, val_ok, err = out, True, None
    except Exception as e:  # pydra rejected (or crashed)
        got_terms, val_ok, err = None, True, f"{type(e).__name__}: {str(e)[:200]}"
        if case["mode"] == "e2e":
            log = evlog.read()
    starts = [e["term"] for e in log if e["ev"] == "start"]
    r["counters"]["body_starts"] = len(starts)
    r["counters"]["mode_" + case["mode"]] = 1
    r["obs"] = {"outputs": got_terms if got_terms is None else got_terms[:6], "n": None if got_terms is None else len(got_terms),
                "error": err, "starts": len(starts)}
    # ---- decide
    if exp is None:
        r["counters"]["rejections_expected"] = 1
        if err is not None and not starts:
            r["verdict"] = "held"
        elif err is not None:
            r["verdict"] = "violated"
            r["witness"] = {"why": "inner split over unequal shapes rejected only after jobs started",
                            "starts": starts[:5], "error": err}
        else:
            if is_may(case):
                r["verdict"] = "may"
            else:
                r["verdict"] = "violated"
                r["witness"] = {"why": "inner split over operands of different lengths was not rejected",
                                "reference": shape_err, "got": got_terms[:8]}
        return r
    want = [term_of(d, vals) for d in exp]
    if err is not None:
        r["verdict"] = "violated"
        r["witness"] = {"why": "valid split raised", "error": err, "expected_jobs": len(want)}
        return r
    if list(got_terms) != want:
        r["verdict"] = "violated"
        r["witness"] = {"why": "outputs/state differ from the reference expansion", "expected": want[:12],
                        "got": list(got_terms)[:12]}
        return r
    if not val_ok:
        r["verdict"] = "violated"
        r["witness"] = {"why": "states_val does not hold the element selected by states_ind"}
        return r
    if case["mode"] == "e2e" and Counter(starts) != Counter(want):
        r["verdict"] = "violated"
        r["witness"] = {"why": "body invocations differ from the expansion (missing/duplicated job)",
                        "expected": want[:12], "starts": starts[:12]}
        return r
    r["verdict"] = "held"
    return r


def case_batch(case, wctx):
    return {"multi": [decide(c, wctx) for c in case["cases"]]}


def enumerate_state_cases(nfields, hi):
    cases = []
    for k in range(1, nfields + 1):
        for fs in itertools.permutations(FIELDS[:nfields], k):
            if list(fs) != sorted(fs) and k == 1:
                continue
        for fs in itertools.combinations(FIELDS[:nfields], k):
            for tree in R.all_trees(list(fs)):
                for ls in itertools.product(range(hi + 1), repeat=k):
                    cases.append({"mode": "state", "tree": tree, "lens": dict(zip(fs, ls))})
    return cases


def batches(cases, per):
    return [{"cases": cases[i:i + per]} for i in range(0, len(cases), per)]


def run(ctx):
    quick = ctx.tier == "quick"
    rng = ctx.rng("gen")
    # (a) state level: exhaustive small + sampled
    st_cases = enumerate_state_cases(2 if quick else 3, 3)
    n_ex = len(st_cases)
    for i in range(600 if quick else 20000):
        k = rng.choice([3, 4, 4]) if quick else 4
        fs = rng.sample(FIELDS, k)
        tree = gen_tree(rng, fs)
        st_cases.append({"mode": "state", "tree": tree, "lens": gen_lens(rng, tree, fs, want_valid=rng.random() < 0.8)})
    # near misses: a valid assignment with exactly one list length changed by one (shapes that agree on some
    # axes and differ on another are the ones a sloppy shape check lets through)
    for i in range(300 if quick else 6000):
        k = rng.choice([2, 3, 4, 4])
        fs = rng.sample(FIELDS, k)
        tree = gen_tree(rng, fs)
        lens = gen_lens(rng, tree, fs, want_valid=True)
        f = rng.choice(fs)
        lens[f] = max(0, lens[f] + rng.choice([1, -1]))
        st_cases.append({"mode": "state", "tree": tree, "lens": lens})
    # (b) end to end
    e2e = []
    for i in range(90 if quick else 3000):
        k = rng.randint(1, 4)
        fs = rng.sample(FIELDS, k)
        tree = gen_tree(rng, fs)
        hi = 3 if k <= 2 else 2
        e2e.append({"mode": "e2e", "tree": tree, "lens": gen_lens(rng, tree, fs, hi=hi, want_valid=rng.random() < 0.8),
                    "worker": "cf" if i % 10 == 0 else "debug"})
    ctx.rule = ("splitter trees over ordered subsets of 4 fields (n-ary, nested outer/inner) x list lengths 0-3 of unique "
                "tokens; state-level part enumerates all trees over <=%d fields x all lengths 0-3; non-trivial = >=2 split "
                "fields or >=2 jobs; distinct = distinct (mode, tree, lengths)" % (2 if quick else 3))
    res = ctx.pmap("vp.props.c01:case_batch", batches(st_cases, 400), timeout=900 if quick else 3000)
    ctx.record_all(res)
    res2 = ctx.pmap("vp.props.c01:case_batch", batches(e2e, 6 if quick else 40), timeout=900 if quick else 3400)
    ctx.record_all(res2)
    ctx.extra["state_level_exhaustive_cases"] = n_ex
    ctx.extra["end_to_end_runs"] = len(e2e)
    ctx.assumptions = ["unique tokens per split list (duplicate elements would legitimately share a cache entry)"]


def replay(ctx, rep):
    from vp.worker import WCtx
    r = decide(rep["case"], WCtx(ctx.scratch, ctx.seed, ctx.prop, ctx.tier))
    print(env.jdump(r, indent=1))
    return 1 if r["verdict"] == "violated" else 0
