"""C02 — combine groups job outputs into an exact, ordered partition.

Observation layers (real code): (a) State.final_combined_ind_mapping, (b) the outputs of
Task.split(...).combine(...)() end to end, (c) the same task as a workflow node whose combined
output feeds a term node (so what the *downstream job received* is observed).
Oracle: vp.ref_split.combine; plus a model-free conservation check: the multiset of returned
leaf terms equals the multiset of body `end` events (no loss / duplication).
"""
from __future__ import annotations

import itertools
import json
from collections import Counter

from vp import env, evlog, ref_split as R
from vp.props import c01

LEVEL = "exploration"


def flat(x):
    if isinstance(x, (list, tuple)):
        for y in x:
            yield from flat(y)
    else:
        yield x


def ref_groups(case):
    exp, shape, axes = R.expand(R.to_py(case["tree"]), case["lens"])
    idx = {json.dumps(d, sort_keys=True): i for i, d in enumerate(exp)}
    return exp, axes, R.combine(exp, axes, case["comb"], lambda d: idx[json.dumps(d, sort_keys=True)])


def run_state(case):
    from pydra.engine.state import State

    def pref(t):
        if isinstance(t, str):
            return "N." + t
        return type(t)(pref(x) for x in t)
    vals = c01.values(case["lens"])
    st = State("N", splitter=pref(R.to_py(case["tree"])), combiner=["N." + f for f in case["comb"]])
    st.prepare_states(inputs={"N." + f: v for f, v in vals.items()})
    m = st.final_combined_ind_mapping
    groups = [m[k] for k in sorted(m)]
    return groups, len(st.states_ind), len(st.states_ind_final)


def parse_term_list(s):
    """'[t1,t2]' rendering produced by vp.terms.s -> list of terms (terms contain no brackets)"""
    assert s.startswith("[") and s.endswith("]")
    body = s[1:-1]
    out, depth, cur = [], 0, ""
    for ch in body:
        if ch == "(":
            depth += 1
        elif ch == ")":
            depth -= 1
        if ch == "," and depth == 0:
            out.append(cur)
            cur = ""
        else:
            cur += ch
    if cur:
        out.append(cur)
    return out


def decide(case, wctx):
    vals = c01.values(case["lens"])
    exp, axes, gidx = ref_groups(case)
    terms = [c01.term_of(d, vals) for d in exp]
    rem = [ax for ax in axes if not any(f in case["comb"] for f in ax)]
    r = {"case": case, "sig": env.sig_of(case), "counters": {"mode_" + case["mode"]: 1}}
    ngroups = len(gidx) if rem else 1
    r["nontrivial"] = len(exp) >= 2 and (ngroups >= 2 or len(axes) >= 2)
    mode = case["mode"]
    try:
        if mode == "state":
            groups, njobs, nfinal = run_state(case)
            want = gidx if rem else [gidx]
            r["obs"] = {"groups": groups[:6], "jobs": njobs}
            if njobs != len(exp) or groups != want:
                r["verdict"] = "violated"
                r["witness"] = {"why": "final_combined_ind_mapping differs from reference partition",
                                "expected": want, "got": groups, "jobs": njobs}
                return r
            if rem and nfinal != len(want):
                r["verdict"] = "violated"
                r["witness"] = {"why": "states_ind_final length differs from number of groups",
                                "expected": len(want), "got": nfinal}
                return r
            r["verdict"] = "held"
            return r
        from pydra.engine.submitter import Submitter
        log = evlog.start(wctx.fresh_dir("log") / "ev.jsonl")
        cache = wctx.fresh_dir("cache")
        if mode == "e2e":
            from vp.terms import F
            task = F(e="k").split(R.to_py(case["tree"]), **vals).combine(case["comb"])
            want = [[terms[i] for i in g] for g in gidx] if rem else [terms[i] for i in gidx]
        else:
            from vp.gen_wf import GenWF
            from pydra.engine.workflow import Workflow
            Workflow.clear_cache()
            spec = {"nodes": [{"name": "F", "inputs": {"e": ["lit", "k"]},
                               "split": {"form": case["tree"], "vals": {f: ["lit", v] for f, v in vals.items()}},
                               "comb": case["comb"]},
                              {"name": "G", "inputs": {"a": ["node", "F"]}}], "out": ["G"]}
            task = GenWF(spec=json.dumps(spec, sort_keys=True))
            if rem:
                want = ["G(a=" + "[" + ",".join(terms[i] for i in g) + "])" for g in gidx]
            else:
                want = "G(a=[" + ",".join(terms[i] for i in gidx) + "])"
        worker = case.get("worker", "debug")
        with Submitter(worker=worker, cache_root=cache, **({"n_procs": 2} if worker == "cf" else {})) as sub:
            res = sub(task, raise_errors=True)
        out = res.outputs.out
        ev = evlog.read(log)
    except Exception as e:
        r["verdict"] = "violated"
        r["witness"] = {"why": "valid split+combine raised", "error": f"{type(e).__name__}: {str(e)[:300]}"}
        r["obs"] = {"error": str(e)[:200]}
        return r
    ends = [e["term"] for e in ev if e["ev"] == "end" and e["node"] == "F"]
    r["counters"]["body_ends"] = len(ends)
    r["counters"]["groups_observed"] = ngroups
    r["obs"] = {"out": out if isinstance(out, str) else list(out)[:4], "ends": len(ends)}

    def norm(x):
        if isinstance(x, (list, tuple)):
            return [norm(y) for y in x]
        return x
    got = norm(out)
    if got != want:
        r["verdict"] = "violated"
        r["witness"] = {"why": "combined outputs differ from the reference partition", "expected": want, "got": got}
        return r
    # conservation, independent of the reference model
    if mode == "e2e":
        leaves = list(flat(got))
    else:
        leaves = []
        for g in ([got] if isinstance(got, str) else got):
            leaves += parse_term_list(g[len("G(a="):-1])
    if Counter(leaves) != Counter(ends):
        r["verdict"] = "violated"
        r["witness"] = {"why": "returned leaves are not exactly the executed jobs' outputs",
                        "leaves": leaves[:12], "ends": ends[:12]}
        return r
    r["verdict"] = "held"
    return r


def case_batch(case, wctx):
    return {"multi": [decide(c, wctx) for c in case["cases"]]}


def subsets(fields):
    for k in range(1, len(fields) + 1):
        yield from itertools.combinations(fields, k)


def run(ctx):
    quick = ctx.tier == "quick"
    rng = ctx.rng("gen")
    st_cases = []
    # state level: exhaustive over <=2 (quick) / <=3 (thorough) fields, lengths 1-3, all combiner subsets
    nf = 2 if quick else 3
    for k in range(1, nf + 1):
        for fs in itertools.combinations(c01.FIELDS[:nf], k):
            for tree in R.all_trees(list(fs)):
                if c01.rank(tree) is None:
                    continue
                for shape in itertools.product(range(1, 4), repeat=c01.rank(tree)):
                    lens = {}
                    c01.force(tree, shape, lens)
                    for comb in subsets(fs):
                        st_cases.append({"mode": "state", "tree": tree, "lens": lens, "comb": list(comb)})
    n_ex = len(st_cases)

    def rand_case(mode, maxk=4):
        while True:
            k = rng.randint(1, maxk)
            fs = rng.sample(c01.FIELDS, k)
            tree = c01.gen_tree(rng, fs)
            if c01.rank(tree) is not None:
                break
        lens = {}
        hi = 3 if k <= 2 else 2
        c01.force(tree, tuple(rng.randint(1, hi) for _ in range(c01.rank(tree))), lens)
        comb = rng.sample(fs, rng.randint(1, k))
        return {"mode": mode, "tree": tree, "lens": lens, "comb": comb}
    for _ in range(500 if quick else 20000):
        st_cases.append(rand_case("state"))
    e2e = []
    for i in range(110 if quick else 4000):
        c = rand_case("e2e" if i % 3 else "wf")
        c["worker"] = "cf" if i % 12 == 0 else "debug"
        e2e.append(c)
    ctx.rule = ("C01 splitter trees (valid shapes, list lengths 1-3) x non-empty combiner subsets; state level enumerates "
                "all trees over <=%d fields x all shapes x all subsets; non-trivial = >=2 jobs and (>=2 groups or >=2 axes); "
                "distinct = distinct (mode, tree, lengths, combiner)" % nf)
    ctx.record_all(ctx.pmap("vp.props.c02:case_batch", c01.batches(st_cases, 300), timeout=900 if quick else 3000))
    ctx.record_all(ctx.pmap("vp.props.c02:case_batch", c01.batches(e2e, 7 if quick else 40), timeout=900 if quick else 3400))
    ctx.extra["state_level_exhaustive_cases"] = n_ex
    ctx.extra["end_to_end_runs"] = len(e2e)
    ctx.assumptions = ["unique tokens per split list"]


def replay(ctx, rep):
    from vp.worker import WCtx
    r = decide(rep["case"], WCtx(ctx.scratch, ctx.seed, ctx.prop, ctx.tier))
    print(env.jdump(r, indent=1))
    return 1 if r["verdict"] == "violated" else 0
