"""C30 — workflow construction caching and repeated runs are transparent.

Workload: histories (<= 7 operations, one process, one cache root, no cache clearing) over task
objects of the interpreted workflow GenWF(spec, x, y) whose graph and outputs depend on every
input: create, run, set an attribute on an already constructed/run task then run, construct with
a subset of inputs declared lazy, run a fresh task with other values.
Observation: run outputs, the constructed workflow's input values and node input values.
Oracle: at every step the outputs equal the nested-loop reference for the inputs *in force at
that step*; a constructed node input fed by a workflow input is either lazy or equal to the
current value of that input (a concrete value belonging to another construction is a leak).
"""
from __future__ import annotations

import json

from vp import env, ref_wf

LEVEL = "exploration"

SPECS = [
    {"nodes": [{"name": "N0", "inputs": {"a": ["wfin", "x"]}},
               {"name": "N1", "inputs": {"a": ["node", "N0"], "b": ["wfin", "y"]}}], "out": ["N1"]},
    {"nodes": [{"name": "N0", "inputs": {"c": ["wfin", "x"]},
                "split": {"form": "a", "vals": {"a": ["lit", ["p0", "p1"]]}}},
               {"name": "N1", "inputs": {"a": ["node", "N0"], "b": ["wfin", "y"]}}], "out": ["N1"]},
    {"nodes": [{"name": "N0", "inputs": {"a": ["wfin", "x"], "b": ["wfin", "y"]}},
               {"name": "N1", "inputs": {"a": ["node", "N0"]},
                "split": {"form": "b", "vals": {"b": ["lit", ["q0", "q1"]]}}, "comb": ["b"]},
               {"name": "N2", "inputs": {"a": ["node", "N1"], "c": ["wfin", "x"]}}], "out": ["N2"]},
]
VALS = ["v1", "v2", "v3"]


def expected(si, x, y):
    return ref_wf.evaluate(SPECS[si], wfin={"x": x, "y": y})[SPECS[si]["out"][0]].final()


def decide(case, wctx):
    from pydra.engine.submitter import Submitter
    from pydra.engine.workflow import Workflow
    from pydra.utils.typing import is_lazy
    from vp.gen_wf import GenWF
    Workflow.clear_cache()          # between histories only
    cache = wctx.fresh_dir("cache")
    slots = {}
    cur = {}
    problems = []
    steps = []
    last_set = None

    def run_task(t):
        with Submitter(worker="debug", cache_root=cache) as sub:
            res = sub(t, raise_errors=True)
        return json.loads(env.jdump(res.outputs.out))
    held = []        # (slot, version of the slot's inputs, constructed workflow)
    version = {}

    def recheck_held(i):
        # a workflow object handed out for one construction must keep that construction's inputs
        for (hk, hv, hwf) in held:
            if version.get(hk) != hv:
                continue              # the task's inputs were changed afterwards: a legitimately stale object
            for inp in ("x", "y"):
                v = getattr(hwf.inputs, inp)
                if not is_lazy(v) and v != cur[hk][inp]:
                    problems.append({"step": i, "why": "a previously constructed workflow now holds another construction's input",
                                     "slot": hk, "input": inp, "got": v, "expected": cur[hk][inp]})
                    return
    for i, op in enumerate(case["ops"]):
        k = op.get("slot")
        try:
            if op["op"] == "new":
                slots[k] = GenWF(spec=json.dumps(SPECS[op["spec"]], sort_keys=True), x=op["x"], y=op["y"])
                cur[k] = {"spec": op["spec"], "x": op["x"], "y": op["y"], "ran": False}
                version[k] = 0
                steps.append({"op": op})
            elif op["op"] == "set":
                setattr(slots[k], op["field"], op["value"])
                cur[k][op["field"]] = op["value"]
                version[k] += 1
                last_set = (k, cur[k]["ran"])
                steps.append({"op": op})
            elif op["op"] in ("run", "fresh_run"):
                if op["op"] == "fresh_run":
                    t = GenWF(spec=json.dumps(SPECS[op["spec"]], sort_keys=True), x=op["x"], y=op["y"])
                    c = {"spec": op["spec"], "x": op["x"], "y": op["y"]}
                else:
                    t, c = slots[k], cur[k]
                out = run_task(t)
                want = expected(c["spec"], c["x"], c["y"])
                steps.append({"op": op, "out": out if not isinstance(out, list) else out[:2]})
                if op["op"] == "run":
                    cur[k]["ran"] = True
                if out != want:
                    stale = None
                    for xv in VALS:
                        for yv in VALS:
                            if (xv, yv) != (c["x"], c["y"]) and out == expected(c["spec"], xv, yv):
                                stale = [xv, yv]
                    problems.append({"step": i, "why": "run outputs differ from the reference for the inputs in force",
                                     "inputs": [c["x"], c["y"]], "got": out, "expected": want, "matches_inputs": stale})
            elif op["op"] in ("construct", "tconstruct"):
                if op["op"] == "tconstruct":
                    wf = slots[k].construct()          # the task-level (memoised) construction used by runs
                    op = {**op, "lazy": []}
                else:
                    wf = Workflow.construct(slots[k], lazy=op["lazy"])
                held.append((k, version[k], wf))
                c = cur[k]
                seen = {}
                for nd in SPECS[c["spec"]]["nodes"]:
                    for f, r in nd["inputs"].items():
                        if r[0] == "wfin":
                            v = getattr(wf[nd["name"]].inputs, f)
                            seen[f"{nd['name']}.{f}"] = "lazy" if is_lazy(v) else v
                            if not is_lazy(v) and v != c[r[1]]:
                                problems.append({"step": i, "why": "constructed node input holds a value of another construction",
                                                 "node_field": f"{nd['name']}.{f}", "got": v, "current": c[r[1]]})
                            if r[1] in op["lazy"] and not is_lazy(v):
                                problems.append({"step": i, "why": "input declared lazy was baked into the graph",
                                                 "node_field": f"{nd['name']}.{f}", "got": v})
                for inp in ("x", "y"):
                    v = getattr(wf.inputs, inp)
                    if not is_lazy(v) and v != c[inp]:
                        problems.append({"step": i, "why": "constructed workflow input holds a value of another construction",
                                         "input": inp, "got": v, "current": c[inp]})
                names = sorted(n.name for n in wf.nodes)
                if names != sorted(nd["name"] for nd in SPECS[c["spec"]]["nodes"]):
                    problems.append({"step": i, "why": "constructed graph has the wrong nodes", "got": names})
                steps.append({"op": op, "node_inputs": seen})
            recheck_held(i)
        except Exception as e:  # noqa: BLE001
            problems.append({"step": i, "why": "operation raised", "op": op, "error": f"{type(e).__name__}: {str(e)[:200]}"})
            break
    r = {"case": case, "sig": env.sig_of(case), "nontrivial": len(case["ops"]) >= 3,
         "counters": {"operations": len(steps), "runs": sum(1 for s in steps if "out" in s),
                      "constructs": sum(1 for s in steps if "node_inputs" in s)},
         "obs": {"steps": steps[:6]}}
    if problems:
        r["verdict"] = "violated"
        r["witness"] = {"problems": problems[:4], "steps": steps}
        # mechanism: an attribute was set on a task object that had already been constructed/run, and the
        # wrong output equals the reference for that object's *old* inputs
        hist_has_set_after_run = any(o["op"] == "set" for o in case["ops"])
        if hist_has_set_after_run and all(p["why"].startswith("run outputs differ") and p.get("matches_inputs") for p in problems):
            r["mech"] = "stale-constructed-memo"
    else:
        r["verdict"] = "held"
    return r


def case_batch(case, wctx):
    return {"multi": [decide(c, wctx) for c in case["cases"]]}


def gen_case(rng):
    ops = []
    live = []
    for _ in range(rng.randint(3, 8)):
        kind = rng.choice(["new", "new", "run", "run", "set", "construct", "tconstruct", "tconstruct", "fresh_run"]) if live else "new"
        if kind == "new":
            k = len(live)
            live.append(k)
            if ops and rng.random() < 0.6:
                # a sibling of an existing task: same workflow, other value of one input (shares cached constructions)
                base = next(o for o in ops if o["op"] == "new")
                ops.append({"op": "new", "slot": k, "spec": base["spec"], "x": rng.choice(VALS), "y": base["y"]})
            else:
                ops.append({"op": "new", "slot": k, "spec": rng.randrange(len(SPECS)), "x": rng.choice(VALS), "y": rng.choice(VALS)})
        elif kind == "run":
            ops.append({"op": "run", "slot": rng.choice(live)})
        elif kind == "set":
            ops.append({"op": "set", "slot": rng.choice(live), "field": rng.choice(["x", "y"]), "value": rng.choice(VALS)})
        elif kind == "construct":
            ops.append({"op": "construct", "slot": rng.choice(live), "lazy": sorted(rng.sample(["x", "y"], rng.randint(0, 2)))})
        elif kind == "tconstruct":
            ops.append({"op": "tconstruct", "slot": rng.choice(live)})
        else:
            ops.append({"op": "fresh_run", "spec": rng.randrange(len(SPECS)), "x": rng.choice(VALS), "y": rng.choice(VALS)})
    if not any(o["op"] in ("run", "fresh_run") for o in ops):
        ops.append({"op": "run", "slot": live[0]})
    return {"ops": ops}


def run(ctx):
    quick = ctx.tier == "quick"
    rng = ctx.rng("gen")
    cases = [gen_case(rng) for _ in range(160 if quick else 5000)]
    ctx.rule = ("histories of 3-7 operations {new, run, set attribute, construct with lazy subset, fresh run} over 3 workflow specs x "
                "3 values per input, one process and one cache root per history; non-trivial = >=3 operations; distinct = distinct history")
    ctx.record_all(ctx.pmap("vp.props.c30:case_batch", [{"cases": cases[i:i + 8]} for i in range(0, len(cases), 8)],
                            timeout=900 if quick else 3400))


def replay(ctx, rep):
    from vp.worker import WCtx
    r = decide(rep["case"], WCtx(ctx.scratch, ctx.seed, ctx.prop, ctx.tier))
    print(env.jdump(r, indent=1))
    return 1 if r["verdict"] == "violated" else 0
