"""C09 — file hashes always reflect current file content.

Monitor: short histories of file operations on a workspace (a file `f.txt`, a directory `d/` with
members `d/a.txt`, `d/sub/b.txt`, sibling files carrying a small pool of timestamps) interleaved with
hash computations of `File(f.txt)` and `Directory(d)` through the real `hash_function` with the
*shared* persistent hash cache (as a task checksum would use it; some also in a fresh child
interpreter sharing PYDRA_HASH_CACHE).  Ops: write same-size / other-size content, restore the mtime
seen at the last hash, set an mtime from the pool, os.replace a new inode over the path (optionally
with copied timestamps), shutil.copy2 a sibling over it, edit / add / remove a directory member.
End-to-end: the task ReadFile / ReadDir is run before and after the history in one cache root and must
return the current content.

Oracle (real code on both sides): at every hash point the digest obtained through the shared
persistent cache must equal the digest of the same file state computed with a fresh, empty persistent
cache.  A 5-line model of pydra's cache key (path + lstat().st_mtime_ns of the top-level paths) is used
only to attribute a stale digest to a mechanism.
"""
from __future__ import annotations

import os
import shutil

from vp import env

LEVEL = "exploration"
PER = 10
POOL = [1_500_000_000, 1_500_000_000, 1_600_000_000,   # archive-like timestamps shared by several files
        2_000_000_000]   # ... and one from a machine whose clock runs ahead (mtime later than any ctime here)
OPS_FILE = ["write_same", "write_other", "utime_restore", "utime_pool", "replace_over", "replace_keep_times",
            "copy2_over", "touch_now"]
OPS_DIR = ["member_write_same", "member_write_other", "member_nested_write", "member_hidden_write",
           "member_hidden_nested_write", "member_add", "member_remove",
           "dir_utime_restore"]


def gen_history(rng, thorough):
    n = rng.randint(2, 6 if not thorough else 8)
    target = rng.choice(["file", "file", "dir"])
    ops = []
    for _ in range(n):
        ops.append(rng.choice(OPS_FILE if target == "file" else OPS_DIR))
        if rng.random() < 0.7:
            ops.append("hash")
    ops.append("hash")
    child_at = None
    if rng.random() < (0.04 if not thorough else 0.02):
        hs = [i for i, o in enumerate(ops) if o == "hash"]
        child_at = rng.choice(hs)
    return {"target": target, "ops": ops, "child_at": child_at, "e2e": rng.random() < 0.3,
            "salt": rng.randrange(10**6)}


class World:
    def __init__(self, root, salt):
        self.root = root
        self.f = root / "f.txt"
        self.d = root / "d"
        (self.d / "sub").mkdir(parents=True)
        self.n = salt % 7
        self.f.write_text(self.content(4))
        (self.d / "a.txt").write_text("aaaa")
        (self.d / "sub" / "b.txt").write_text("bbbb")
        (self.d / ".params").write_text("pppp")                 # hidden members are part of a Directory's content too
        (self.d / ".meta").mkdir()
        (self.d / ".meta" / "info.json").write_text("iiii")
        self.sib = []
        for i, ts in enumerate(POOL):
            p = root / f"sib{i}.txt"
            p.write_text(f"S{i}" + "s" * (2 if i < 2 else 5 + i))  # sib0/sib1: same size, same mtime, other content
            os.utime(p, ns=(ts * 10**9, ts * 10**9))
            self.sib.append(p)
        self.last_hash_mtime = {}

    def content(self, size):
        self.n += 1
        s = f"{self.n:x}"
        return (s * size)[:size]

    def state(self, target):
        """(model key, content digest) of the target — model of pydra's persistent-cache key"""
        import hashlib
        p = self.f if target == "file" else self.d
        key = (str(p), p.lstat().st_mtime_ns)
        h = hashlib.sha1()
        if target == "file":
            h.update(p.read_bytes())
        else:
            for q in sorted(p.rglob("*")):
                h.update(str(q.relative_to(p)).encode() + b"\0")
                if q.is_file():
                    h.update(q.read_bytes())
        return key, h.hexdigest()

    def apply(self, op, rng_pick):
        f, d = self.f, self.d
        explicit_time = False
        member = False
        if op == "write_same":
            f.write_text(self.content(len(f.read_text())))
        elif op == "write_other":
            f.write_text(self.content(len(f.read_text()) + 1 + rng_pick % 3))
        elif op in ("utime_restore", "dir_utime_restore"):
            p = f if op == "utime_restore" else d
            t = self.last_hash_mtime.get(str(p))
            if t is not None:
                os.utime(p, ns=(t, t))
                explicit_time = True
        elif op.startswith("utime_pool"):
            idx = int(op.split("@")[1]) if "@" in op else rng_pick % len(POOL)
            t = POOL[idx] * 10**9
            os.utime(f, ns=(t, t))
            explicit_time = True
        elif op == "touch_now":
            os.utime(f)
        elif op in ("replace_over", "replace_keep_times"):
            tmp = f.with_suffix(".tmp")
            tmp.write_text(self.content(len(f.read_text()) + (rng_pick % 2)))
            if op == "replace_keep_times":
                shutil.copystat(f, tmp)  # what editors / rsync -t / atomic writers preserving times do
                explicit_time = True
            os.replace(tmp, f)
        elif op == "copy2_over":
            shutil.copy2(self.sib[rng_pick % len(self.sib)], f)
            explicit_time = True
        elif op == "member_write_same":
            q = d / "a.txt"
            q.write_text(self.content(len(q.read_text())))
            member = True
        elif op == "member_write_other":
            q = d / "a.txt"
            q.write_text(self.content(len(q.read_text()) + 1))
            member = True
        elif op == "member_nested_write":
            q = d / "sub" / "b.txt"
            q.write_text(self.content(len(q.read_text()) + rng_pick % 2))
            member = True
        elif op in ("member_hidden_write", "member_hidden_nested_write"):
            q = d / ".params" if op == "member_hidden_write" else d / ".meta" / "info.json"
            q.write_text(self.content(len(q.read_text()) + rng_pick % 2))
            member = True
        elif op == "member_add":
            (d / f"new{self.n}.txt").write_text(self.content(3))
        elif op == "member_remove":
            for q in sorted(d.glob("new*.txt"))[:1]:
                q.unlink()
        return explicit_time, member


def hash_target(w, target, cache_dir):
    from fileformats.generic import Directory, File
    from pydra.utils.hash import hash_function
    obj = File(w.f) if target == "file" else Directory(w.d)
    return hash_function(obj, persistent_cache=cache_dir)


def run_history(hist, wctx):
    import random
    from vp.props.c07 import child
    root = wctx.fresh_dir("h")
    w = World(root / "ws", hist["salt"])
    shared = root / "shared-hashcache"
    shared.mkdir()
    rng = random.Random(hist["salt"])
    target = hist["target"]
    cnt = {"histories": 1, "ops_applied": 0, "hash_points": 0, "child_hash_points": 0, "content_changes_seen": 0}
    seen = {}       # model key -> (content digest, index of the hash point that stored it)
    marks = []      # per op since the beginning: (op, explicit_time, member)
    bad = []
    e2e = None
    if hist["e2e"]:
        from vp import cache_tasks as T
        os.environ["PYDRA_HASH_CACHE"] = str(shared)
        task = T.ReadFile(f=w.f) if target == "file" else T.ReadDir(d=w.d)
        croot = root / "cache"
        key0, digest0 = w.state(target)
        e2e = {"first": task(cache_root=croot, worker="debug").out}
        cnt["task_runs"] = 1
        seen[key0] = (digest0, -1)  # the task checksum hashed the input through the shared cache
        w.last_hash_mtime[key0[0]] = key0[1]
    last_digest = None
    for i, op in enumerate(hist["ops"]):
        if op != "hash":
            et, mem = w.apply(op, rng.randrange(1000))
            marks.append((i, op, et, mem))
            cnt["ops_applied"] += 1
            continue
        key, digest = w.state(target)
        if digest != last_digest:
            cnt["content_changes_seen"] += 1
            last_digest = digest
        if hist["child_at"] == i:
            r = child({"mode": "filehash", "paths": [[target, str(w.f if target == "file" else w.d)]]},
                      root, f"fh{i}", "0", shared)
            got = r["res"][0]
            cnt["child_hash_points"] += 1
        else:
            got = hash_target(w, target, shared)
        fresh_dir = root / f"fresh{i}"
        fresh_dir.mkdir()
        want = hash_target(w, target, fresh_dir)
        shutil.rmtree(fresh_dir, ignore_errors=True)
        cnt["hash_points"] += 1
        p = w.f if target == "file" else w.d
        w.last_hash_mtime[str(p)] = p.lstat().st_mtime_ns
        if got != want:
            prev = seen.get(key)
            since = [m for m in marks if prev is not None and m[0] > prev[1]]
            if prev is not None and prev[0] != digest:
                if target == "dir" and any(m[3] for m in since):
                    mech = "directory-member-change"
                elif any(m[2] for m in since):
                    mech = "mtime-key-restored"
                else:
                    mech = "mtime-granularity"
            else:
                mech = None
            bad.append({"at_op": i, "mech": mech, "shared_cache_hash": got, "fresh_cache_hash": want,
                        "model_key": list(key), "ops_since_key_was_stored": [m[1] for m in since]})
        seen.setdefault(key, (digest, i))
    if e2e is not None:
        from vp import cache_tasks as T
        task = T.ReadFile(f=w.f) if target == "file" else T.ReadDir(d=w.d)
        e2e["last"] = task(cache_root=root / "cache", worker="debug").out
        cnt["task_runs"] += 1
        if target == "file":
            now = w.f.read_text()
        else:
            now = "|".join(f"{q.relative_to(w.d)}={q.read_text()}" for q in sorted(w.d.rglob("*")) if q.is_file())
        if e2e["last"] != now:
            # attribute like the last stale hash point if there was one (same key model), else unclassified
            mech = bad[-1]["mech"] if bad else None
            bad.append({"end_to_end": True, "mech": mech, "task_returned": e2e["last"], "current_content": now})
            cnt["stale_task_results"] = 1
    changed = cnt["content_changes_seen"] >= 2
    r = {"case": hist, "sig": env.sig_of(hist), "nontrivial": changed and cnt["hash_points"] >= 2,
         "obs": {"hash_points": cnt["hash_points"], "distinct_contents": cnt["content_changes_seen"], "e2e": e2e},
         "counters": cnt, "distinct": {"ops": sorted(set(hist["ops"]))}}
    if not bad:
        r["verdict"] = "held"
        return [r]
    r["counters"]["stale_hashes"] = len([b for b in bad if "at_op" in b])
    out = []
    groups = {}
    for b in bad:  # a history can exhibit several mechanisms: one verdict per mechanism
        groups.setdefault(b["mech"], []).append(b)
    for n, (m, bs) in enumerate(sorted(groups.items(), key=lambda kv: str(kv[0]))):
        out.append(dict(r, verdict="violated", mech=m, witness={"bad": bs[:3]}, counters=r["counters"] if n == 0 else {}))
    return out


def directed_histories():
    """the classic stale-key shapes, for every timestamp of the pool (past and ahead-of-clock): give the file
    an explicit mtime, hash, change the content (same / other size, in place / by replacement), give it the
    same mtime again, hash"""
    out = []
    for i in range(len(POOL)):
        for change in ("write_same", "write_other", "replace_over", "replace_keep_times"):
            for again in (f"utime_pool@{i}", "utime_restore"):
                out.append({"target": "file", "ops": [f"utime_pool@{i}", "hash", change, again, "hash"], "child_at": None,
                            "e2e": False, "salt": 17 * i + len(change)})
    return out


def batch(case, wctx):
    out = []
    keep = os.environ.get("PYDRA_HASH_CACHE")
    directed = directed_histories()
    for i in range(case["lo"], case["hi"]):
        hist = directed[i] if i < len(directed) else gen_history(wctx.rng(f"h{i}"), wctx.tier != "quick")
        try:
            out.extend(run_history(hist, wctx))
        except env.HarnessError as e:
            out.append({"verdict": "inconclusive", "case": hist, "why": "harness: " + str(e)})
        finally:
            if keep is not None:
                os.environ["PYDRA_HASH_CACHE"] = keep
    return {"multi": out}


def run(ctx):
    quick = ctx.tier == "quick"
    n = 320 if quick else 6000
    ctx.rule = ("32 directed stale-key histories (explicit mtime from the pool incl. one ahead of the clock, hash, change, same mtime again, hash) + "
                "random histories of 2-6 (thorough 8) file operations on a file or a directory input interleaved with hash "
                "points (shared persistent cache vs fresh cache, ~4% with one hash point in a fresh child process, 30% "
                "with an end-to-end task run before/after); non-trivial = >= 2 hash points that saw >= 2 different "
                "contents; distinct = distinct histories")
    cases = [{"lo": i, "hi": min(n, i + PER)} for i in range(0, n, PER)]
    ctx.record_all(ctx.pmap("vp.props.c09:batch", cases, nproc=8 if quick else 16, timeout=600 if quick else 3000))
    ctx.assumptions = ["scratch is on tmpfs (/dev/shm): its timestamp granularity decides whether plain back-to-back "
                       "writes can share an mtime", "the fresh-cache digest of the real code is taken as the hash of "
                       "the current content"]


def replay(ctx, rep):
    from vp.worker import WCtx
    w = WCtx(str(ctx.scratch), ctx.seed, "C09", ctx.tier)
    rs = run_history(rep["case"], w)
    print(env.jdump([{k: r.get(k) for k in ("verdict", "mech", "witness", "obs")} for r in rs], indent=1))
    return 1 if any(r["verdict"] == "violated" for r in rs) else 0
