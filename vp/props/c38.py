"""C38 — mount lookup compares whole path components.

Workload: generated `mount` outputs (Linux and macOS line formats; cifs and other file
systems; nested mounts; siblings that share a string prefix; spaces in mount points in the
thorough tier) parsed by the real parse_mount_table, crossed with paths inside, beside and
above the mount points.  Oracle: the longest mount point *of the parsed table* that is a
path-component prefix of the path (default ("/", "ext4")), and consistency of on_cifs /
on_same_mount with it.
"""
from __future__ import annotations

from pathlib import PurePosixPath

from vp import env

LEVEL = "exploration"
COMPS = ["data", "data2", "dat", "mnt", "m", "home", "a", "ab", "data.bak"]
FSTYPES = ["cifs", "ext4", "nfs", "tmpfs", "cifs", "smbfs"]


def gen_case(rng, spaces=False):
    comps = COMPS + (["my share", "x y"] if spaces else [])
    nm = rng.randint(1, 6)
    mounts = {}
    if rng.random() < 0.8:
        mounts["/"] = rng.choice(["ext4", "hfs", "apfs", "cifs"] if rng.random() < 0.15 else ["ext4", "hfs"])
    pool = []
    for _ in range(nm):
        if pool and rng.random() < 0.45:
            base = rng.choice(pool)
        else:
            base = ""
        mp = base + "/" + rng.choice(comps)
        if mp not in mounts:
            mounts[mp] = rng.choice(FSTYPES)
            pool.append(mp)
    fmt = rng.choice(["linux", "mac"])
    lines = []
    items = list(mounts.items())
    rng.shuffle(items)
    for i, (mp, fs) in enumerate(items):
        if mp != "/" and rng.random() < 0.15:
            mp = mp + "/"          # some tools print mount points with a trailing slash
        if fmt == "linux":
            lines.append(f"//srv{i}/share on {mp} type {fs} (rw,relatime,vers=3.0)" if fs == "cifs"
                         else f"/dev/sd{i} on {mp} type {fs} (rw,nosuid)")
        else:
            lines.append(f"/dev/disk{i}s1 on {mp} ({fs}, local, journaled)")
    # paths: exact mount points, children, string-prefix siblings, parents, unrelated
    paths = []
    for mp in list(mounts)[:4]:
        b = mp.rstrip("/")
        paths += [mp, b + "/f.txt", b + "/" + rng.choice(comps) + "/g", b + "2/f.txt" if b else "/zz/f",
                  b + ".bak/f", b + rng.choice(["x", "_old", "-1"]) + "/f" if b else "/q"]
        par = str(PurePosixPath(mp).parent)
        paths.append(par if par else "/")
    for _ in range(3):
        paths.append("/" + "/".join(rng.choice(comps) for _ in range(rng.randint(1, 3))))
    paths = sorted(set(paths))
    return {"mount_output": "\n".join(lines), "mounts": mounts, "paths": paths}


def expected(table, path):
    parts = PurePosixPath(path).parts
    best = None
    for mp, fs in table:
        mparts = PurePosixPath(mp).parts
        if parts[:len(mparts)] == mparts:
            if best is None or len(mparts) > len(PurePosixPath(best[0]).parts):
                best = (mp, fs)
    return best if best is not None else ("/", "ext4")


def classify(table, path, got, exp):
    """startswith-prefix: the returned mount is a string prefix but not a component prefix."""
    g = str(got[0])
    parts = PurePosixPath(path).parts
    gparts = PurePosixPath(g).parts
    if path.startswith(g) and parts[:len(gparts)] != gparts:
        return "startswith-prefix"
    return None


def execute(case):
    from pathlib import Path
    from pydra.utils.mount_identifier import MountIndentifier as MI
    table = MI.parse_mount_table(0, case["mount_output"])
    res = []
    with MI.patch_table(table):
        for p in case["paths"]:
            got = MI.get_mount(p)
            exp = expected(table, p)
            ok = (str(got[0]) == str(Path(exp[0])) and got[1] == exp[1])
            cifs = MI.on_cifs(p)
            if ok and cifs != (exp[1] == "cifs"):
                ok = False
            res.append({"path": p, "got": [str(got[0]), got[1]], "exp": list(exp), "ok": ok,
                        "mech": None if ok else classify(table, p, got, exp)})
        # on_same_mount on pairs
        pairs = 0
        for i, p in enumerate(case["paths"]):
            for q in case["paths"][i + 1:i + 4]:
                same = MI.on_same_mount(p, q)
                e = str(Path(expected(table, p)[0])) == str(Path(expected(table, q)[0]))
                pairs += 1
                if same != e:
                    gp, gq = MI.get_mount(p), MI.get_mount(q)
                    m = classify(table, p, gp, None) or classify(table, q, gq, None)
                    res.append({"path": [p, q], "got": same, "exp": e, "ok": False, "mech": m})
    return table, res, pairs


def case_batch(case, wctx):
    out = []
    for i in range(case["lo"], case["hi"]):
        rng = wctx.rng(f"m{i}")
        c = gen_case(rng, spaces=case.get("spaces", False) and rng.random() < 0.3)
        table, res, pairs = execute(c)
        bad = [r for r in res if not r["ok"]]
        nontriv = len(table) >= 1
        r = {"case": {"mount_output": c["mount_output"], "paths": c["paths"]},
             "sig": env.sig_of([c["mount_output"], c["paths"]]), "nontrivial": nontriv,
             "obs": {"parsed_table": table, "lookups": len(res), "sample": res[:3]},
             "counters": {"lookups": len(res), "same_mount_pairs": pairs,
                          "tables_with_cifs": 1 if table else 0}}
        if bad:
            mechs = {b["mech"] for b in bad}
            r["verdict"] = "violated"
            r["mech"] = mechs.pop() if len(mechs) == 1 else None
            r["witness"] = {"parsed_table": table, "bad": bad[:4]}
        else:
            r["verdict"] = "held"
        out.append(r)
    return {"multi": out}


def run(ctx):
    quick = ctx.tier == "quick"
    n = 3000 if quick else 300000
    per = 200 if quick else 5000
    ctx.rule = ("generated mount outputs (1-7 mounts, linux/mac formats, nested + string-prefix siblings) x "
                "10-30 paths each; non-trivial = parsed table non-empty (has a CIFS region); "
                "distinct = distinct (mount output, path list)")
    cases = [{"lo": i, "hi": min(n, i + per), "spaces": not quick} for i in range(0, n, per)]
    ctx.record_all(ctx.pmap("vp.props.c38:case_batch", cases, timeout=600 if quick else 3000))
    ctx.assumptions = ["oracle is relative to the table pydra's own parse_mount_table keeps (CIFS mounts and "
                       "mounts below them); mounts it drops fall back to the documented default ('/', 'ext4')"]


def replay(ctx, rep):
    c = rep["case"]
    table, res, _ = execute(c)
    print(env.jdump({"table": table, "bad": [r for r in res if not r["ok"]]}, indent=1))
    return 1 if any(not r["ok"] for r in res) else 0
