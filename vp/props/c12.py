"""C12 — a crash at any point never yields a wrong result or a wedged cache.   (fault_enumeration)

Crash points are enumerated from the running tree: a recording pass lists every sys.monitoring LINE
event on the job execution path (Job.run / run_async, _populate_filesystem, result, save,
record_error, load_result); for each index k a victim process is killed (os._exit(137): no finally,
no atexit) immediately before event k, then a fresh process resubmits the same task into the same
cache root.  A second family truncates a complete `_result.pklz` to every / sampled lengths
(optionally planting the dead process's lock and info files).
Oracle: the resubmission returns the complete correct output (or, for the failing task, raises);
never a partial/wrong value, never success for the failing task; no-hang: the resubmitting
process watching a lock whose holder is dead for the whole grace period is a violation (lasso),
a plain wall-clock timeout is inconclusive.
"""
from __future__ import annotations

import glob
import json
import os
import subprocess
import sys
import time
from pathlib import Path

from vp import env

LEVEL = "fault_enumeration"
PY = env.PY

TARGETS_ASYNC = ["pydra.engine.job:Job.run_async", "pydra.engine.job:Job._populate_filesystem",
                 "pydra.engine.job:Job.result", "pydra.engine.result:save", "pydra.engine.result:record_error",
                 "pydra.engine.result:load_result"]
SCEN = {
    "py": {"expected": "P(a=x,b=[p,q])"},
    "shell": {"expected": "payload-k7"},
    "failing": {"expected_error": True},
    "big": {"expected": {"n": 30000, "digest_ok": True}},
    "wf_debug": {"expected": ["C(a=B(a=A(a=x),b=b0))", "C(a=B(a=A(a=x),b=b1))"]},
    "wf_cf_parent": {"expected": ["C(a=B(a=A(a=x),b=b0))", "C(a=B(a=A(a=x),b=b1))"], "targets": TARGETS_ASYNC, "where": "self"},
    "wf_cf_child": {"expected": ["C(a=B(a=A(a=x),b=b0))", "C(a=B(a=A(a=x),b=b1))"], "where": "children"},
}


def child(scenario, root, tag, fp=None, timeout=120, rerun=False):
    root = Path(root)
    cache = root / "cache"
    cache.mkdir(exist_ok=True)
    outp = root / f"{tag}.json"
    e = dict(os.environ)
    e.pop("VERIF_FAILPOINT", None)
    if fp:
        e["VERIF_FAILPOINT"] = json.dumps(fp)
    e["VP_C12_COUNT"] = str(root / "c12_count")
    cmd = [PY, "-m", "vp.fpchild", scenario, str(cache), str(root / "ev.jsonl"), str(outp)] + (["rerun"] if rerun else [])
    t0 = time.time()
    rc, _, err = env.run_group(cmd, timeout, cwd=str(env.VERIF), env=e)
    stderr = err.decode(errors="replace")[-400:]
    res = {}
    if outp.exists():
        try:
            res = json.loads(outp.read_text())
        except ValueError:
            pass
    res["rc"] = rc
    res["wall"] = round(time.time() - t0, 2)
    if rc not in (0, 137, 99) and not res.get("out") and not res.get("err"):
        res["stderr"] = stderr
    return res


def judge(scenario, res):
    """-> (verdict, why) for a resubmission result"""
    sc = SCEN[scenario]
    if res.get("lasso"):
        return "violated", {"why": "resubmission blocked on a lock whose holder is dead", "lasso": res["lasso"]}
    if res["rc"] == "timeout":
        return "inconclusive", "resubmission exceeded the wall-clock watchdog without lasso evidence"
    if res["rc"] != 0:
        return "inconclusive", f"resubmission child rc={res['rc']} {res.get('stderr', '')[-200:]}"
    if sc.get("expected_error"):
        if res.get("err") and "boom" in res["err"] or (res.get("err") and "Q" in res["err"]):
            return "held", None
        if res.get("err"):
            return "held", None
        return "violated", {"why": "failing task reported success after a crash", "resubmission": res}
    if res.get("err"):
        return "violated", {"why": "resubmission failed instead of returning the result / re-executing",
                            "error": res["err"]}
    if res.get("out") != sc["expected"]:
        return "violated", {"why": "resubmission returned a wrong or partial result", "got": res.get("out"),
                            "expected": sc["expected"]}
    if res.get("errored"):
        return "violated", {"why": "result flagged errored but returned", "got": res.get("out")}
    return "held", None


def case_crash(case, wctx):
    scenario, k = case["scenario"], case["k"]
    root = wctx.fresh_dir("c")
    sc = SCEN[scenario]
    fp = {"mode": "exit", "k": k, "where": sc.get("where", "any")}
    if sc.get("targets"):
        fp["targets"] = sc["targets"]
    victim = child(scenario, root, "victim", fp=fp, timeout=150)
    left = sorted(os.path.basename(p) for p in glob.glob(str(root / "cache" / "*")))
    res = child(scenario, root, "resubmit", timeout=150)
    verdict, why = judge(scenario, res)
    runs = None
    if scenario == "shell" and (root / "c12_count").exists():
        runs = len((root / "c12_count").read_text().splitlines())
    crashed = victim["rc"] == 137 or (scenario == "wf_cf_child" and victim.get("err"))
    r = {"case": case, "sig": env.sig_of(case), "nontrivial": bool(crashed),
         "counters": {"crash_points_hit": int(bool(crashed)), "resubmissions": 1,
                      "victim_completed": int(victim["rc"] == 0 and not victim.get("err"))},
         "distinct": {"crash_sites": [f"{scenario}:{case.get('site')}"]},
         "obs": {"victim_rc": victim["rc"], "victim_err": (victim.get("err") or "")[:80], "left_in_cache": left[:8],
                 "resubmit_out": res.get("out") if not isinstance(res.get("out"), list) else res["out"][:2],
                 "resubmit_err": (res.get("err") or "")[:120], "resubmit_wall": res["wall"], "shell_runs": runs}}
    if verdict == "inconclusive":
        return {**r, "verdict": "inconclusive", "why": why}
    r["verdict"] = verdict
    if verdict == "violated":
        r["witness"] = {**why, "crash_before_event": k, "site": case.get("site"), "left_in_cache": left}
    return r


def case_trunc(case, wctx):
    scenario, frac = case["scenario"], case["frac"]
    root = wctx.fresh_dir("t")
    first = child(scenario, root, "first", timeout=150)
    if first["rc"] != 0 or first.get("err"):
        return {"verdict": "inconclusive", "case": case, "why": f"setup run failed: {first}"[:300]}
    files = glob.glob(str(root / "cache" / "*" / "_result.pklz"))
    if len(files) != 1:
        return {"verdict": "inconclusive", "case": case, "why": f"expected one result file, found {len(files)}"}
    f = files[0]
    size = os.path.getsize(f)
    length = case["length"] if case.get("length") is not None else max(0, min(size - 1, int(size * frac)))
    if length >= size:
        return {"verdict": "inconclusive", "case": case, "why": "length >= size"}
    with open(f, "r+b") as fh:
        fh.truncate(length)
    jobdir = os.path.dirname(f)
    if case.get("plant_lock"):
        # what a process killed while holding the job lock leaves behind: its lock + info file
        p = subprocess.Popen(["true"])
        p.wait()
        Path(jobdir + ".lock").write_text(f"{p.pid}\n{os.uname().nodename}\n")
        (root / "cache" / "deadbeef_info.json").write_text(json.dumps({"checksum": os.path.basename(jobdir)}))
    res = child(scenario, root, "resubmit", timeout=150)
    verdict, why = judge(scenario, res)
    r = {"case": case, "sig": env.sig_of([scenario, length, case.get("plant_lock")]), "nontrivial": True,
         "counters": {"truncations": 1, "resubmissions": 1},
         "obs": {"result_size": size, "truncated_to": length, "resubmit_out": res.get("out") if scenario != "big" else res.get("out"),
                 "resubmit_err": (res.get("err") or "")[:120], "wall": res["wall"]}}
    if verdict == "inconclusive":
        return {**r, "verdict": "inconclusive", "why": why}
    r["verdict"] = verdict
    if verdict == "violated":
        r["witness"] = {**why, "result_size": size, "truncated_to": length, "plant_lock": case.get("plant_lock")}
    return r


def case_record(case, wctx):
    root = wctx.fresh_dir("r")
    sc = SCEN[case["scenario"]]
    fp = {"mode": "record", "where": sc.get("where", "any")}
    if sc.get("targets"):
        fp["targets"] = sc["targets"]
    if sc.get("where") == "children":
        # children cannot hand their trace back; record with the same targets in a debug-worker run
        res = child("wf_debug", root, "rec", fp={"mode": "record"}, timeout=150)
    else:
        res = child(case["scenario"], root, "rec", fp=fp, timeout=150)
    return {"verdict": "held", "case": case, "nontrivial": False, "trace": res.get("trace"), "rc": res["rc"],
            "err": res.get("err"), "size": None}


def run(ctx):
    quick = ctx.tier == "quick"
    scenarios = ["py", "wf_cf_child"] if quick else list(SCEN)
    if quick:
        scenarios += ["failing", "shell", "wf_debug", "wf_cf_parent"]   # sparsely sampled in quick
    recs = ctx.pmap("vp.props.c12:case_record", [{"scenario": s} for s in scenarios], timeout=400)
    cases = []
    npoints = {}
    for s, rec in zip(scenarios, recs):
        tr = rec.get("trace")
        if not tr:
            ctx.inconclusive.append({"case": {"scenario": s}, "why": f"recording pass produced no trace: {rec.get('err') or rec.get('why')}"[:300]})
            continue
        npoints[s] = len(tr)
        dense = s in ("py", "wf_cf_child")
        # thorough: every point of the single-job paths, every 3rd (offset by seed) of the ~700-point workflow paths
        step = ({"py": 5, "wf_cf_child": 36}.get(s, 36 if len(tr) > 200 else 15)) if quick else (3 if len(tr) > 200 else 1)
        off = ctx.seed % step
        for k in range(1 + off, len(tr) + 1, step):
            cases.append({"scenario": s, "k": k, "site": f"{tr[k - 1][0]}+{tr[k - 1][1]}"})
        if not quick or dense:
            cases.append({"scenario": s, "k": len(tr) + 5, "site": "past-the-end"})
    ctx.record_all(ctx.pmap("vp.props.c12:case_crash", cases, nproc=14, timeout=900 if quick else 3300))
    # truncation family
    tr_cases = []
    rng = ctx.rng("trunc")
    if quick:
        for i in range(16):
            tr_cases.append({"scenario": "py" if i % 3 else "big", "frac": rng.random(), "length": None,
                             "plant_lock": i % 2 == 0})
        tr_cases += [{"scenario": "py", "frac": 0, "length": 0, "plant_lock": False},
                     {"scenario": "py", "frac": 0, "length": 1, "plant_lock": True}]
    else:
        # every truncation length below 96 bytes (pickle header / first frames), then every 5th up to 4 KB
        # (lengths beyond the actual file size are dropped), of the python task's result file
        for L in list(range(0, 96)) + list(range(96, 4000, 5)):
            tr_cases.append({"scenario": "py", "frac": 0, "length": L, "plant_lock": L % 2 == 0})
        for i in range(60):
            tr_cases.append({"scenario": "big", "frac": rng.random(), "length": None, "plant_lock": i % 2 == 0})
    res = ctx.pmap("vp.props.c12:case_trunc", tr_cases, nproc=14, timeout=900 if quick else 3400)
    # lengths beyond the file size are not cases (thorough enumerates 0..size-1)
    res = [r for r in res if not (r.get("verdict") == "inconclusive" and r.get("why") == "length >= size")]
    ctx.record_all(res)
    ctx.extra["crash_points_per_scenario"] = npoints
    ctx.extra["crash_cases"] = len(cases)
    ctx.extra["truncation_cases"] = len(res)
    ctx.rule = ("crash before every (thorough; every 3rd of the ~700-point workflow paths) / every 5th-36th (quick, offset by seed) LINE event of the recorded execution "
                "path of each scenario (python task, shell task, failing task, workflow under debug, workflow under cf "
                "crashing the parent or a pool child) + truncation of a complete result file to every length < 96 and every 5th beyond (thorough, python "
                "task) / sampled lengths; non-trivial = the victim really died at the point; distinct = distinct "
                "(scenario, point) / (scenario, length, planted lock)")
    ctx.assumptions = ["crash points are statement boundaries of the traced functions plus file truncation lengths, not "
                       "arbitrary instruction boundaries inside pickle.dump",
                       "filelock's own stale-lock breaking (dead pid) is part of the system under test"]


def replay(ctx, rep):
    from vp.worker import WCtx
    w = WCtx(ctx.scratch, ctx.seed, ctx.prop, ctx.tier)
    c = rep["case"]
    r = case_crash(c, w) if "k" in c else case_trunc(c, w)
    print(env.jdump(r, indent=1))
    return 1 if r["verdict"] == "violated" else 0
