"""C16 — the max_concurrent limit is never exceeded.

Workload: workflows of up to ~10 gated term jobs (one split node, several independent nodes,
chains feeding split nodes) run through the real async loop with a real process pool
(n_procs >= number of jobs, so the pool never hides over-launching) under limits k = 1..n and
controller-chosen completion orders (vp.gated).  Every launched body logs `start` and then
waits at its gate, so the number of bodies between `start` and `end` in the totally ordered
event log is exactly the number of jobs executing at that instant.
Oracle: running maximum over every log prefix <= k.
"""
from __future__ import annotations

import json

from vp import env

LEVEL = "exploration"


def gen_spec(rng):
    kind = rng.choice(["split", "indep", "chain_split", "two_splits"])
    if kind == "split":
        n = rng.randint(3, 8)
        nodes = [{"name": "N0", "gate": True, "inputs": {},
                  "split": {"form": "a", "vals": {"a": ["lit", [f"t{i}" for i in range(n)]]}}}]
    elif kind == "indep":
        n = rng.randint(3, 7)
        nodes = [{"name": f"N{i}", "gate": True, "inputs": {"a": ["lit", f"v{i}"]}} for i in range(n)]
    elif kind == "chain_split":
        n = rng.randint(2, 5)
        nodes = [{"name": "N0", "gate": True, "inputs": {"a": ["lit", "v0"]}},
                 {"name": "N1", "gate": True, "inputs": {"a": ["node", "N0"]},
                  "split": {"form": "b", "vals": {"b": ["lit", [f"t{i}" for i in range(n)]]}}},
                 {"name": "N2", "gate": True, "inputs": {"a": ["node", "N1"]}}]
    else:
        n1, n2 = rng.randint(2, 4), rng.randint(2, 4)
        nodes = [{"name": "N0", "gate": True, "inputs": {},
                  "split": {"form": "a", "vals": {"a": ["lit", [f"s{i}" for i in range(n1)]]}}},
                 {"name": "N1", "gate": True, "inputs": {},
                  "split": {"form": "a", "vals": {"a": ["lit", [f"t{i}" for i in range(n2)]]}}},
                 {"name": "N2", "gate": True, "inputs": {"a": ["lit", "solo"]}}]
    return {"nodes": nodes, "out": [nodes[-1]["name"]]}, kind


def njobs(spec):
    from vp import ref_wf
    return sum(len(r.jobs) for r in ref_wf.evaluate(spec).values())


def decide(case, wctx):
    from vp import gated
    from vp.gen_wf import GenWF
    from pydra.engine.workflow import Workflow
    Workflow.clear_cache()
    spec, k = case["spec"], case["k"]
    rng = wctx.rng("order" + env.sig_of(case))
    if case.get("policy") == "fifo":
        chooser = lambda held, ev: held[0]           # noqa: E731
    elif case.get("policy") == "lifo":
        chooser = lambda held, ev: held[-1]          # noqa: E731
    else:
        chooser = lambda held, ev: rng.choice(held)  # noqa: E731
    g = gated.run_gated(GenWF(spec=json.dumps(spec, sort_keys=True)), wctx, chooser, max_concurrent=k,
                        n_procs=case.get("n_procs", 10))
    n = njobs(spec)
    starts = sum(1 for e in g["events"] if e["ev"] == "start")
    r = {"case": case, "sig": env.sig_of(case),
         "counters": {"events": len(g["events"]), "body_starts": starts, "releases": len(g["order"]),
                      "forced_releases": g["stats"].get("forced_releases", 0)},
         "distinct": {"release_orders": [env.sig_of(g["order"])], "limits": [k]},
         "obs": {"k": k, "jobs": n, "max_running": g["max_running"], "held_sizes": g["stats"].get("held_sizes"),
                 "release_order": g["order"][:10], "error": None if g["exc"] is None else repr(g["exc"])[:200]},
         "nontrivial": n > k and starts >= 2}
    if g["timed_out"]:
        return {**r, "verdict": "inconclusive", "why": "wall-clock watchdog fired"}
    if g["exc"] is not None or starts != n:
        return {**r, "verdict": "inconclusive", "why": f"workflow did not run all {n} jobs ({starts} started): {g['exc']!r}"[:300]}
    if g["max_running"] > k:
        r["verdict"] = "violated"
        r["witness"] = {"why": f"{g['max_running']} bodies were executing simultaneously under max_concurrent={k}",
                        "release_order": g["order"], "held_sizes": g["stats"].get("held_sizes"),
                        "log_head": [[e["ev"], e["term"]] for e in g["events"][:24]]}
        # mechanism: the excess was launched while earlier launched bodies were still held, i.e. the
        # limit was applied to newly queued jobs only, ignoring jobs already in flight
        sizes = g["stats"].get("held_sizes") or []
        if sizes and max(sizes) > k and min(s for s in sizes[:1]) <= k:
            r["mech"] = "limit-ignores-inflight"
        return r
    r["verdict"] = "held"
    return r


def case_one(case, wctx):
    return decide(case, wctx)


def run(ctx):
    quick = ctx.tier == "quick"
    rng = ctx.rng("gen")
    cases = []
    for i in range(28 if quick else 160):
        spec, kind = gen_spec(rng)
        n = njobs(spec)
        k = rng.randint(1, max(1, n - 1)) if rng.random() < 0.85 else n
        cases.append({"spec": spec, "kind": kind, "k": k, "policy": rng.choice(["random", "random", "fifo", "lifo"]),
                      "n_procs": max(n, 4)})
    ctx.rule = ("gated workflows (one split node / independent nodes / chain into split / two split nodes) with 3-10 jobs, "
                "limit k in 1..n, release policy random/fifo/lifo; non-trivial = more jobs than k and >=2 bodies observed; "
                "distinct = distinct (spec, k, policy)")
    ctx.record_all(ctx.pmap("vp.props.c16:case_one", cases, nproc=4 if quick else 5, timeout=1500 if quick else 3400))
    ctx.assumptions = ["n_procs >= number of jobs so that only max_concurrent can bound concurrency",
                       "nested workflows are not part of this workload"]


def replay(ctx, rep):
    from vp.worker import WCtx
    r = decide(rep["case"], WCtx(ctx.scratch, ctx.seed, ctx.prop, ctx.tier))
    print(env.jdump(r, indent=1))
    return 1 if r["verdict"] == "violated" else 0
