"""C03 — workflow state propagation matches a nested-loop reference evaluation.

Workload: generated workflow graphs (vp.gen_wf specs: term nodes, chains / fan-in / fan-out /
diamonds, own splitters single/outer/inner over literal token lists, own-axis combiners,
list-producing nodes split downstream, nested sub-workflows) run on the real engine.
Observation: the event log of every node body (node name + full input terms) and the workflow
output.  Oracle: vp.ref_wf (natural join).  The verdict is computed node by node, so a known
defect family confined to some nodes does not mask a mismatch elsewhere.
"""
from __future__ import annotations

import json
from collections import Counter

from vp import env, evlog, ref_wf

LEVEL = "exploration"


def gen_spec(rng, nmax=5, p_conn=0.45, p_split=0.5, p_comb=0.3, ext=False, p_empty=0.0):
    """ext=True adds list-producing nodes split downstream, nested sub-workflows, combiners over
    upstream axes and workflow inputs (x, y)"""
    n = rng.randint(2, nmax)
    nodes = []
    lnodes = []      # uncombined list-producing nodes
    for i in range(n):
        name = f"N{i}"
        kind = "F"
        if ext:
            r = rng.random()
            kind = "L" if r < 0.18 else ("W" if r < 0.3 else "F")
        fields = ["a", "b", "c"] if kind == "F" else ["a", "b"]
        inputs = {}
        for f in fields:
            r = rng.random()
            if i > 0 and r < p_conn:
                inputs[f] = ["node", rng.choice(nodes)["name"]]
            elif r < p_conn + 0.15:
                inputs[f] = ["lit", f"{name.lower()}{f}"]
            elif ext and r < p_conn + 0.25:
                inputs[f] = ["wfin", rng.choice(["x", "y"])]
        if i > 0 and not any(v[0] == "node" for v in inputs.values()) and rng.random() < 0.85:
            inputs[rng.choice(fields)] = ["node", rng.choice(nodes)["name"]]
        free = [f for f in fields if f not in inputs]
        nd = {"name": name, "inputs": inputs}
        if kind != "F":
            nd["kind"] = kind
        if kind == "L":
            nd["n"] = rng.randint(2, 3)
        if kind == "W":
            if not inputs:
                inputs["a"] = ["lit", f"{name.lower()}a"]
            sub_nodes = [{"name": f"{name}s0", "inputs": {f: ["wfin", f] for f in inputs}}]
            if rng.random() < 0.5:
                sub_nodes[0]["split"] = {"form": "c", "vals": {"c": ["lit", [f"{name.lower()}sc{j}" for j in range(2)]]}}
                if rng.random() < 0.5:
                    sub_nodes[0]["comb"] = ["c"]
            if rng.random() < 0.5:
                sub_nodes.append({"name": f"{name}s1", "inputs": {"a": ["node", f"{name}s0"]}})
            nd["sub"] = {"nodes": sub_nodes, "out": [sub_nodes[-1]["name"]]}
            free = []
        if free and rng.random() < p_split:
            k = rng.randint(1, min(2, len(free)))
            fs = sorted(rng.sample(free, k))
            vals = {}
            if k == 1:
                form = fs[0]
                lens = {fs[0]: rng.randint(1, 3)}
            elif rng.random() < 0.5:
                form = {"o": fs}
                lens = {f: rng.randint(1, 2) for f in fs}
            else:
                form = {"i": fs}
                m = rng.randint(1, 3)
                lens = {f: m for f in fs}
            if rng.random() < p_empty:
                lens = {f: 0 for f in fs}       # a split over empty lists: the node runs no job at all
            for f in fs:
                vals[f] = ["lit", [f"{name.lower()}{f}{j}" for j in range(lens[f])]]
            if ext and lnodes and not isinstance(form, dict) or (ext and lnodes and isinstance(form, dict) and "o" in form):
                if rng.random() < 0.6:
                    vals[fs[0]] = ["node", rng.choice(lnodes)]      # split over an upstream list output
            nd["split"] = {"form": form, "vals": vals}
            if rng.random() < p_comb:
                nd["comb"] = sorted(rng.sample(fs, rng.randint(1, k)))
        if ext and kind == "F" and rng.random() < 0.15:
            # combine over an axis inherited from an upstream node
            ups = [v[1] for v in inputs.values() if v[0] == "node"]
            cands = []
            for u in ups:
                und = next(x for x in nodes if x["name"] == u)
                if und.get("split"):
                    for f, r in und["split"]["vals"].items():
                        if f not in (und.get("comb") or []) and not (isinstance(und["split"]["form"], dict) and "i" in und["split"]["form"]
                                                                       and set(und.get("comb") or []) & set(und["split"]["vals"])):
                            cands.append(f"{u}.{f}")
            if cands:
                nd["comb"] = sorted(set(nd.get("comb", []) + [rng.choice(cands)]))
        nodes.append(nd)
        if kind == "L" and not nd.get("comb"):
            lnodes.append(name)
    # the workflow output is where the *order* of a node's jobs is observed: vary which node it is
    out = nodes[-1]["name"] if rng.random() < 0.5 else rng.choice(nodes)["name"]
    return {"nodes": nodes, "out": [out]}


def gen_fanin(rng):
    """k independently split source nodes feeding one fan-in node through randomly assigned fields (the merged
    state is the outer product in *field* order, whatever the nodes are called or the order they were added in),
    optionally followed by a combiner over one source's axis and a consumer"""
    k = rng.randint(2, 3)
    names = [f"N{i}" for i in range(k)]
    rng.shuffle(names)
    nodes = []
    for nm in names:
        n = rng.randint(1, 3)
        nd = {"name": nm, "inputs": {"c": ["lit", nm.lower() + "c"]},
              "split": {"form": "a", "vals": {"a": ["lit", [f"{nm.lower()}a{j}" for j in range(n)]]}}}
        if rng.random() < 0.3:
            nd["split"] = {"form": {"o": ["a", "b"]}, "vals": {"a": nd["split"]["vals"]["a"],
                                                              "b": ["lit", [f"{nm.lower()}b{j}" for j in range(2)]]}}
        nodes.append(nd)
    fields = rng.sample(["a", "b", "c"], k)
    fan = {"name": "M", "inputs": {f: ["node", nm] for f, nm in zip(fields, rng.sample(names, k))}}
    free = [f for f in ["a", "b", "c"] if f not in fan["inputs"]]
    if free and rng.random() < 0.4:
        fan["split"] = {"form": free[0], "vals": {free[0]: ["lit", ["m0", "m1"]]}}
    if rng.random() < 0.35:
        src = rng.choice(names)
        fan["comb"] = [f"{src}.a"]
    nodes.append(fan)
    out = "M"
    if rng.random() < 0.4:
        nodes.append({"name": "Z", "inputs": {"a": ["node", "M"]}})
        out = rng.choice(["M", "Z"])
    return {"nodes": nodes, "out": [out]}


def run_spec(spec, wctx, worker="debug", n_procs=2, wfin=None, wfsplit=None, **subkw):
    from pydra.engine.submitter import Submitter
    from pydra.engine.workflow import Workflow
    from vp.gen_wf import GenWF
    Workflow.clear_cache()
    log = evlog.start(wctx.fresh_dir("log") / "ev.jsonl")
    out = err = None
    try:
        task = GenWF(spec=json.dumps(spec, sort_keys=True), **(wfin or {}))
        if wfsplit:
            task = task.split(wfsplit[0], **{wfsplit[0]: wfsplit[1]})
        kw = {"n_procs": n_procs} if worker == "cf" else {}
        with Submitter(worker=worker, cache_root=wctx.fresh_dir("cache"), **kw, **subkw) as sub:
            res = sub(task, raise_errors=True)
        out = json.loads(env.jdump(res.outputs.out))
    except Exception as e:
        err = f"{type(e).__name__}: {str(e)[:200]}"
    return out, err, evlog.read(log)


def shape_of(spec):
    """coarse structural signature for evidence: fan-in / diamond / splits / combiners"""
    ups = {nd["name"]: sorted({v[1] for v in nd["inputs"].values() if v[0] == "node"}) for nd in spec["nodes"]}
    fanin = sum(1 for u in ups.values() if len(u) >= 2)
    splits = sum(1 for nd in spec["nodes"] if nd.get("split"))
    combs = sum(1 for nd in spec["nodes"] if nd.get("comb"))
    return f"n{len(spec['nodes'])}-fanin{fanin}-split{splits}-comb{combs}"


def reference(case):
    """-> (per-node Counter of job terms, expected workflow output, shared-origin nodes, tainted nodes)"""
    spec = case["spec"]
    wfin = dict(case.get("wfin") or {})
    runs = [wfin]
    if case.get("wfsplit"):
        runs = [{**wfin, case["wfsplit"][0]: v} for v in case["wfsplit"][1]]
    per_node = {}
    outs = []
    bad = set()
    for w in runs:
        jobs = []
        res = ref_wf.evaluate(spec, wfin=w, jobs_out=jobs)
        bad |= set(ref_wf.shared_origin_nodes(spec, res))
        for nm, t in jobs:
            per_node.setdefault(nm, Counter())[t] += 1
        outs.append(res[spec["out"][0]].final())
    return per_node, (outs if case.get("wfsplit") else outs[0]), sorted(bad), ref_wf.descendants_or_self(spec, bad)


def all_inherited_axes_combined(spec, case):
    """some node has its own splitter and a combiner that removes every axis it inherits from upstream"""
    res = ref_wf.evaluate(spec, wfin=case.get("wfin") or {})
    for nd in spec["nodes"]:
        if not nd.get("split") or not any("." in c for c in nd.get("comb", [])):
            continue
        inherited = [ax for ax in res[nd["name"]].axes_all if ax[0] != nd["name"]]
        if inherited and not any(ax in res[nd["name"]].axes for ax in inherited):
            return True
    return False


def split_over_multi_axis_list(spec, case):
    """some node splits over the list output of an upstream node that itself still has >= 2 state axes"""
    res = ref_wf.evaluate(spec, wfin=case.get("wfin") or {})
    for nd in spec["nodes"]:
        for r in (nd.get("split") or {}).get("vals", {}).values():
            if r[0] == "node" and len(res[r[1]].axes) >= 2:
                return True
    return False


def no_job_output_node_with_inherited_axes(spec, case):
    """the workflow's output node ran no job (own split over an empty list, combined away) but inherits >= 1 axis"""
    o = ref_wf.evaluate(spec, wfin=case.get("wfin") or {})[spec["out"][0]]
    return bool(o.combined and not o.jobs and o.axes and o.table)


def dual_use_nodes(spec):
    """nodes that use one upstream output both as a split source and as a plain input"""
    out = []
    for nd in spec["nodes"]:
        src = {r[1] for r in (nd.get("split") or {}).get("vals", {}).values() if r[0] == "node"}
        plain = {r[1] for r in nd.get("inputs", {}).values() if r[0] == "node"}
        if src & plain:
            out.append(nd["name"])
    return out


def decide(case, wctx):
    spec = case["spec"]
    per_node, want_out, bad, tainted = reference(case)
    out, err, ev = run_spec(spec, wctx, worker=case.get("worker", "debug"), wfin=case.get("wfin"), wfsplit=case.get("wfsplit"))
    starts = {}
    for e in ev:
        if e["ev"] == "start":
            starts.setdefault(e["node"], []).append(e["term"])
    njobs = sum(sum(c.values()) for c in per_node.values())
    feats = set()
    for nd in spec["nodes"]:
        if nd.get("kind") in ("L", "W"):
            feats.add(nd["kind"])
        if any("." in c for c in nd.get("comb", [])):
            feats.add("upcomb")
        if any(r[0] == "node" for r in (nd.get("split") or {}).get("vals", {}).values()):
            feats.add("splitlist")
    if case.get("wfsplit"):
        feats.add("wfsplit")
    r = {"case": case, "sig": env.sig_of(case),
         "counters": {"body_starts": sum(len(v) for v in starts.values()), "reference_jobs": njobs,
                      "graphs_with_shared_origin": 1 if bad else 0},
         "distinct": {"graph_shapes": [shape_of(spec) + "".join("-" + f for f in sorted(feats))]},
         "nontrivial": njobs >= 3 and any(nd.get("split") for nd in spec["nodes"]),
         "obs": {"out": out if not isinstance(out, list) else out[:4], "err": err,
                 "jobs_per_node": {k: len(v) for k, v in starts.items()}}}
    last = spec["out"][0]
    if err is not None:
        r["verdict"] = "violated"
        r["witness"] = {"why": "valid workflow raised", "error": err, "shared_origin_nodes": bad}
        if bad:
            r["mech"] = "shared-origin-upstreams"
        elif all_inherited_axes_combined(spec, case) and ("max() iterable argument is empty" in err or err.startswith("IndexError")):
            r["mech"] = "own-splitter-with-all-upstream-axes-combined"
        elif err.startswith("AssertionError") and split_over_multi_axis_list(spec, case):
            r["mech"] = "split-over-multi-axis-upstream-list"
        return r
    mism = []
    # nested workflow nodes log under their sub-node names; a W node is tainted with its parent
    owner = {}
    for nd in spec["nodes"]:
        owner[nd["name"]] = nd["name"]
        for sn in (nd.get("sub") or {}).get("nodes", []):
            owner[sn["name"]] = nd["name"]
    for nm in sorted(set(per_node) | set(starts)):
        want = per_node.get(nm, Counter())
        got = Counter(starts.get(nm, []))
        # identical jobs (e.g. jobs of a split workflow that do not depend on the split input) may share one execution
        ok = set(got) == set(want) and all(1 <= got[t] <= want[t] for t in want)
        if not ok:
            mism.append({"node": nm, "expected": sorted(want.elements())[:8], "got": sorted(got.elements())[:8],
                         "n_expected": sum(want.values()), "n_got": sum(got.values())})
    if out != want_out:
        mism.append({"node": "<workflow output>", "expected": want_out if not isinstance(want_out, list) else want_out[:8],
                     "got": out if not isinstance(out, list) else out[:8], "of": last})
    if not mism:
        r["verdict"] = "held"
        return r
    r["verdict"] = "violated"
    r["witness"] = {"why": "node jobs / outputs differ from the nested-loop reference", "mismatches": mism[:4],
                    "shared_origin_nodes": bad}
    clean = [m for m in mism if owner.get(m["node"] if m["node"] != "<workflow output>" else m["of"], m["node"]) not in tainted]
    if bad and not clean:
        r["mech"] = "shared-origin-upstreams"
    else:
        dual = ref_wf.descendants_or_self(spec, dual_use_nodes(spec))
        rest = [m for m in mism if owner.get(m["node"] if m["node"] != "<workflow output>" else m["of"], m["node"]) not in (tainted | dual)]
        if dual and not rest:
            r["mech"] = "split-source-also-plain-input"
        elif (len(clean) == 1 and clean[0]["node"] == "<workflow output>" and clean[0]["got"] == [] and not case.get("wfsplit")
              and no_job_output_node_with_inherited_axes(spec, case)):
            # (mismatches explained by shared-origin-upstreams elsewhere in the same graph are set aside first)
            r["mech"] = "no-job-output-node-loses-inherited-axes"
    return r


def case_batch(case, wctx):
    return {"multi": [decide(c, wctx) for c in case["cases"]]}


def run(ctx):
    quick = ctx.tier == "quick"
    rng = ctx.rng("gen")
    cases = []
    for i in range(100 if quick else 3000):
        cases.append({"spec": gen_spec(rng, nmax=rng.choice([3, 4, 5]), p_empty=0.1), "worker": "cf" if i % 15 == 0 else "debug"})
    for i in range(40 if quick else 1500):
        cases.append({"spec": gen_fanin(rng), "worker": "debug"})
    for i in range(60 if quick else 2500):
        c = {"spec": gen_spec(rng, nmax=rng.choice([3, 4, 5]), ext=True), "worker": "cf" if i % 15 == 7 else "debug",
             "wfin": {"x": "vx", "y": "vy"}}
        if rng.random() < 0.25:
            c["wfsplit"] = ["x", ["vx0", "vx1"]]
        cases.append(c)
    ctx.rule = ("random workflow graphs of 2-5 term nodes (inputs literal / earlier node output; own splitter single/outer/"
                "inner over 1-3 unique tokens; own-axis combiners) + an extended grammar (list-producing nodes split downstream, nested "
                "sub-workflows, combiners over upstream axes, workflow inputs, split of the whole workflow); non-trivial = >=3 reference jobs and >=1 split node; "
                "distinct = distinct graph spec")
    ctx.record_all(ctx.pmap("vp.props.c03:case_batch", [{"cases": cases[i:i + 5]} for i in range(0, len(cases), 5)],
                            timeout=900 if quick else 3400))


def replay(ctx, rep):
    from vp.worker import WCtx
    r = decide(rep["case"], WCtx(ctx.scratch, ctx.seed, ctx.prop, ctx.tier))
    print(env.jdump(r, indent=1))
    return 1 if r["verdict"] == "violated" else 0
