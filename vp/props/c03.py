"""C03 — workflow state propagation matches a nested-loop reference evaluation.

Workload: generated workflow graphs (vp.gen_wf specs: term nodes, chains / fan-in / fan-out /
diamonds, own splitters single/outer/inner over literal token lists, own-axis combiners,
list-producing nodes split downstream, nested sub-workflows) run on the real engine.
Observation: the event log of every node body (node name + full input terms) and the workflow
output.  Oracle: vp.ref_wf (natural join).  The verdict is computed node by node, so a known
defect family confined to some nodes does not mask a mismatch elsewhere.
"""
from __future__ import annotations

import json
from collections import Counter

from vp import env, evlog, ref_wf

LEVEL = "exploration"


def gen_spec(rng, nmax=5, p_conn=0.45, p_split=0.5, p_comb=0.3):
    n = rng.randint(2, nmax)
    nodes = []
    for i in range(n):
        name = f"N{i}"
        inputs = {}
        fields = ["a", "b", "c"]
        for f in fields:
            r = rng.random()
            if i > 0 and r < p_conn:
                inputs[f] = ["node", rng.choice(nodes)["name"]]
            elif r < p_conn + 0.15:
                inputs[f] = ["lit", f"{name.lower()}{f}"]
        if i > 0 and not any(v[0] == "node" for v in inputs.values()) and rng.random() < 0.85:
            inputs[rng.choice(fields)] = ["node", rng.choice(nodes)["name"]]
        free = [f for f in fields if f not in inputs]
        nd = {"name": name, "inputs": inputs}
        if free and rng.random() < p_split:
            k = rng.randint(1, min(2, len(free)))
            fs = sorted(rng.sample(free, k))
            if k == 1:
                form = fs[0]
                lens = {fs[0]: rng.randint(1, 3)}
            elif rng.random() < 0.5:
                form = {"o": fs}
                lens = {f: rng.randint(1, 2) for f in fs}
            else:
                form = {"i": fs}
                m = rng.randint(1, 3)
                lens = {f: m for f in fs}
            nd["split"] = {"form": form,
                           "vals": {f: ["lit", [f"{name.lower()}{f}{j}" for j in range(lens[f])]] for f in fs}}
            if rng.random() < p_comb:
                nd["comb"] = sorted(rng.sample(fs, rng.randint(1, k)))
        nodes.append(nd)
    return {"nodes": nodes, "out": [nodes[-1]["name"]]}


def run_spec(spec, wctx, worker="debug", n_procs=2, **subkw):
    from pydra.engine.submitter import Submitter
    from pydra.engine.workflow import Workflow
    from vp.gen_wf import GenWF
    Workflow.clear_cache()
    log = evlog.start(wctx.fresh_dir("log") / "ev.jsonl")
    out = err = None
    try:
        task = GenWF(spec=json.dumps(spec, sort_keys=True))
        kw = {"n_procs": n_procs} if worker == "cf" else {}
        with Submitter(worker=worker, cache_root=wctx.fresh_dir("cache"), **kw, **subkw) as sub:
            res = sub(task, raise_errors=True)
        out = json.loads(env.jdump(res.outputs.out))
    except Exception as e:
        err = f"{type(e).__name__}: {str(e)[:200]}"
    return out, err, evlog.read(log)


def shape_of(spec):
    """coarse structural signature for evidence: fan-in / diamond / splits / combiners"""
    ups = {nd["name"]: sorted({v[1] for v in nd["inputs"].values() if v[0] == "node"}) for nd in spec["nodes"]}
    fanin = sum(1 for u in ups.values() if len(u) >= 2)
    splits = sum(1 for nd in spec["nodes"] if nd.get("split"))
    combs = sum(1 for nd in spec["nodes"] if nd.get("comb"))
    return f"n{len(spec['nodes'])}-fanin{fanin}-split{splits}-comb{combs}"


def decide(case, wctx):
    spec = case["spec"]
    ref = ref_wf.evaluate(spec)
    bad = ref_wf.shared_origin_nodes(spec, ref)
    tainted = ref_wf.descendants_or_self(spec, bad)
    out, err, ev = run_spec(spec, wctx, worker=case.get("worker", "debug"))
    starts = {}
    for e in ev:
        if e["ev"] == "start":
            starts.setdefault(e["node"], []).append(e["term"])
    njobs = sum(len(r.jobs) for r in ref.values())
    r = {"case": case, "sig": env.sig_of(spec),
         "counters": {"body_starts": sum(len(v) for v in starts.values()), "reference_jobs": njobs,
                      "graphs_with_shared_origin": 1 if bad else 0},
         "distinct": {"graph_shapes": [shape_of(spec)]},
         "nontrivial": njobs >= 3 and any(nd.get("split") for nd in spec["nodes"]),
         "obs": {"out": out if not isinstance(out, list) else out[:4], "err": err,
                 "jobs_per_node": {k: len(v) for k, v in starts.items()}}}
    last = spec["out"][0]
    if err is not None:
        r["verdict"] = "violated"
        r["witness"] = {"why": "valid workflow raised", "error": err, "shared_origin_nodes": bad}
        if bad:
            r["mech"] = "shared-origin-upstreams"
        return r
    mism = []
    for nd in spec["nodes"]:
        nm = nd["name"]
        want = Counter(t for _, t in ref[nm].jobs)
        got = Counter(starts.get(nm, []))
        if want != got:
            mism.append({"node": nm, "expected": sorted(want.elements())[:8], "got": sorted(got.elements())[:8],
                         "n_expected": sum(want.values()), "n_got": sum(got.values())})
    want_out = ref[last].final()
    if out != want_out:
        mism.append({"node": "<workflow output>", "expected": want_out if not isinstance(want_out, list) else want_out[:8],
                     "got": out if not isinstance(out, list) else out[:8], "of": last})
    if not mism:
        r["verdict"] = "held"
        return r
    r["verdict"] = "violated"
    r["witness"] = {"why": "node jobs / outputs differ from the nested-loop reference", "mismatches": mism[:4],
                    "shared_origin_nodes": bad}
    clean = [m for m in mism if (m["node"] if m["node"] != "<workflow output>" else m["of"]) not in tainted]
    if bad and not clean:
        r["mech"] = "shared-origin-upstreams"
    return r


def case_batch(case, wctx):
    return {"multi": [decide(c, wctx) for c in case["cases"]]}


def run(ctx):
    quick = ctx.tier == "quick"
    rng = ctx.rng("gen")
    cases = []
    for i in range(130 if quick else 4000):
        cases.append({"spec": gen_spec(rng, nmax=rng.choice([3, 4, 5])), "worker": "cf" if i % 15 == 0 else "debug"})
    ctx.rule = ("random workflow graphs of 2-5 term nodes (inputs literal / earlier node output; own splitter single/outer/"
                "inner over 1-3 unique tokens; own-axis combiners); non-trivial = >=3 reference jobs and >=1 split node; "
                "distinct = distinct graph spec")
    ctx.record_all(ctx.pmap("vp.props.c03:case_batch", [{"cases": cases[i:i + 5]} for i in range(0, len(cases), 5)],
                            timeout=900 if quick else 3400))


def replay(ctx, rep):
    from vp.worker import WCtx
    r = decide(rep["case"], WCtx(ctx.scratch, ctx.seed, ctx.prop, ctx.tier))
    print(env.jdump(r, indent=1))
    return 1 if r["verdict"] == "violated" else 0
