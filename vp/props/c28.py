"""C28 — SLURM / SGE workers follow the scheduler's verdict; user -J/-o/-e options are honoured.

Observation: every submission runs in its own process (`vp.c28_runner`) with a simulated scheduler
first on PATH (vp/fakes/sched: sbatch/squeue/sacct/scontrol, qsub/qstat/qacct sharing a state file,
driven by a per-job response script, really executing the batch script when the script says the
job runs).  Observed: the Submitter's return/exception, every scheduler command with its argv, the
simulator's event list (submitted / verdict / requeued / executed) and the task bodies' own log.
Oracle: vp.ref_sched (outcome model from the statement).  Poll delays are 0 through the workers'
own parameters; the simulator declares a live-lock after `poll_budget` polls of one job and kills
the runner (conclusive: verdict repeated, no reaction); the wall-clock watchdog is inconclusive.
MAY: accounting permanently missing (error or keep polling, never complete).
Mechanisms: `slurm-user-error-option`, `sge-typeerror`, `acct-lag-fatal`,
`sched-failure-masked-by-result`, `wf-worker-error-livelock` / `wf-no-result-livelock` (an exception from worker.run inside a workflow
leaves the submitter spinning; detected by stack sampling in the runner, not by a timeout).
"""
from __future__ import annotations

import json
import os
from pathlib import Path

from vp import env, ref_sched

LEVEL = "fault_enumeration"
FAKES = env.VERIF / "vp" / "fakes"
TOOLS = ["sbatch", "squeue", "sacct", "scontrol", "qsub", "qstat", "qacct"]
NJOBS = {"single": 1, "chain2": 2, "par3": 4}


def gen_script(rng, sge):
    steps = []

    def transients(k):
        for _ in range(rng.randint(0, k)):
            r = rng.random()
            if r < 0.08 and not sge:
                steps.append({"st": "acct_missing"})
            else:
                s = {"st": rng.choice(["pending", "running"])}
                if rng.random() < 0.2 and not sge:
                    s["lag"] = True
                steps.append(s)
    transients(2)
    for _ in range(rng.choice([0, 0, 0, 1, 1, 2])):
        if sge:
            steps.append({"st": "evicted"})
        else:
            steps.append({"st": rng.choice(["cancelled", "timeout", "preempted"]), "plus": rng.random() < 0.5,
                          "sig": rng.choice([0, 0, 15])})
        transients(1)
    r = rng.random()
    if r < 0.50:
        steps.append({"st": "run"})
    elif r < 0.62:
        steps.append({"st": "run", "body_fails": True})
    elif r < 0.70:
        steps.append({"st": "completed_noexec"})
    elif r < 0.82:
        steps.append({"st": "failed", "state": rng.choice(["FAILED", "NODE_FAIL", "OUT_OF_MEMORY"]),
                      "rc": rng.choice([1, 2, 137]), "errfile": rng.random() < 0.7})
    elif r < 0.94:
        steps.append({"st": "failed_after_run", "rc": 1})
    else:
        steps.append({"st": "acct_missing"})
    return steps[-6:]


def gen_case(rng, i):
    sge = rng.random() < 0.2
    # (an SGE workflow dead-locks the submitter behind the known TypeError: no scheduler call to observe)
    wf = rng.choice(["single"] if sge else ["single", "single", "single", "chain2", "chain2", "par3"])
    case = {"i": i, "worker": "sge" if sge else "slurm", "wf": wf, "x": rng.randint(0, 9),
            "scripts": [gen_script(rng, sge) for _ in range(NJOBS[wf])], "user": {}}
    for o, p in (("J", 0.35), ("o", 0.35), ("e", 0.2)):
        if rng.random() < p:
            case["user"][o] = rng.choice(["short", "long"])
    case["extra"] = rng.choice(["", "", "-p debug", "-n 1"])
    if sge:
        case["poll_for_result_file"] = rng.random() < 0.5
    return case


def user_args(case, d):
    vals = {"J": "myjob", "o": f"{d}/user-%j.out", "e": f"{d}/user-%j.err"}
    toks = case["extra"].split() if case["worker"] == "slurm" else []
    for o, form in case["user"].items():
        if case["worker"] == "sge":
            toks += [{"J": "-N", "o": "-o", "e": "-e"}[o], vals[o].replace("%j", "$JOB_ID")]
        elif form == "short":
            toks += ["-" + o, vals[o]]
        else:
            toks += [{"J": "--job-name", "o": "--output", "e": "--error"}[o] + "=" + vals[o]]
    return toks, vals


def check_options(case, calls, toks, vals):
    """user-supplied options honoured, not duplicated or dropped (per submit call)"""
    bad = []
    sub = "sbatch" if case["worker"] == "slurm" else "qsub"
    names = {"slurm": {"J": ("-J", "--job-name"), "o": ("-o", "--output"), "e": ("-e", "--error")},
             "sge": {"J": ("-N", None), "o": ("-o", None), "e": ("-e", None)}}[case["worker"]]
    for c in calls:
        if c[0] != sub:
            continue
        a = c[1:-1]
        it = iter(a)
        if not all(t in it for t in toks):
            bad.append({"kind": "user-option-dropped", "argv": c, "user": toks})
        for o, (s, l) in names.items():
            n = sum(1 for x in a if x == s or (l and (x == l or x.startswith(l + "="))))
            if o in case["user"] and n != 1:
                bad.append({"kind": "user-option-duplicated", "opt": o, "n": n, "argv": c})
    return bad


def run_case(case, wctx):
    from vp.fakes._log import read_log
    d = wctx.fresh_dir("s")
    (d / "bin").mkdir()
    for t in TOOLS:
        os.symlink(FAKES / "sched", d / "bin" / t)
    (d / "scr").mkdir()
    budget = 40
    (d / "state.json").write_text(json.dumps({"scripts": case["scripts"], "jobs": {}, "next_id": 1000,
                                               "events": [], "poll_budget": budget}))
    toks, vals = user_args(case, d)
    if case["worker"] == "slurm":
        kw = {"poll_delay": 0, "sbatch_args": " ".join(toks)}
    else:
        kw = {"poll_delay": 0, "collect_jobs_delay": 0, "polls_before_checking_evicted": 2,
              "qsub_args": " ".join(toks), "default_qsub_args": " ".join(toks),
              "poll_for_result_file": case.get("poll_for_result_file", True)}
    (d / "spec.json").write_text(json.dumps({"scratch": str(d / "scr"), "worker": case["worker"], "wf": case["wf"],
                                             "x": case["x"], "cache_root": str(d / "cr"), "worker_kw": kw}))
    e = dict(os.environ)
    e.update({"PATH": f"{d / 'bin'}:{e['PATH']}", "VP_SCHED_STATE": str(d / "state.json"),
              "VP_ARGV_LOG": str(d / "argv.log"), "VP_BODY_LOG": str(d / "body.log")})
    wd = 240 if wctx.tier == "quick" else 600
    e["VP_RUNNER_DEADLINE"] = str(wd + 20)   # the runner also ends itself (and when its parent dies)
    # own session; the whole process group (runner, batch scripts, fakes) is killed afterwards
    rc, _, perr = env.run_group([env.PY, "-m", "vp.c28_runner", str(d / "spec.json"), str(d / "out.json")],
                                wd, cwd=str(env.VERIF), env=e)
    watchdog = rc == "timeout"
    calls = read_log(d / "argv.log")
    st = json.loads((d / "state.json").read_text())
    events = st["events"]
    body = (d / "body.log").read_text().splitlines() if (d / "body.log").exists() else []
    want, submitted = ref_sched.overall(case["wf"], case["scripts"])
    nsteps = sum(len(s) for s in case["scripts"])
    res = {"case": case, "sig": env.sig_of({k: v for k, v in case.items() if k != "i"}),
           "nontrivial": nsteps >= 2 or bool(case["user"]),
           "counters": {"scenarios": 1, "scheduler_calls": len(calls), "jobs_submitted": len(st["jobs"]),
                        "verdicts_told": sum(1 for x in events if x["ev"] == "verdict"),
                        "requeues": sum(1 for x in events if x["ev"] == "requeued"),
                        "batch_scripts_executed": sum(1 for x in events if x["ev"] == "executed"),
                        "body_starts": sum(1 for x in body if x.startswith("start"))},
           "distinct": {"response_shape": ["/".join(",".join(s["st"] for s in sc) for sc in case["scripts"])],
                        "user_options": [case["worker"] + ":" + "".join(sorted(case["user"]))]},
           "obs": {"calls": [c[:2] for c in calls][:30], "events": events[:30]}}
    if watchdog:
        return {**res, "verdict": "inconclusive", "why": f"wall-clock watchdog ({wd}s) fired"}
    out = json.loads((d / "out.json").read_text()) if (d / "out.json").exists() else None
    got = out["outcome"] if out else None
    res["obs"]["outcome"], res["obs"]["expected"] = got, want
    bad = check_options(case, calls, toks, vals)
    if out is None:
        bj = st.get("budget_exceeded")
        if not bj:
            return {**res, "verdict": "inconclusive", "why": f"runner died rc={rc}: " + perr.decode(errors="replace")[-600:]}
        j = st["jobs"][bj]
        sc = case["scripts"][j["logical"] % len(case["scripts"])]
        cur = sc[min(j["cursor"], len(sc) - 1)]["st"]
        res["counters"]["poll_budget_exceeded"] = 1
        if cur == "acct_missing" and want == "may":
            return {**res, "verdict": "may"} if not bad else _viol(res, bad, None, out, events)
        bad.append({"kind": "live-lock", "step": cur, "polls": j["polls"],
                    "why": f"the scheduler answered {budget} polls of job {bj} at step {cur!r}; "
                           "the worker neither finished nor requeued"})
        return _viol(res, bad, None, out, events)
    if got == "complete":
        from vp.c28_tasks import EXPECT
        if out.get("value") != EXPECT[case["wf"]](case["x"]):
            bad.append({"kind": "wrong-value", "got": out.get("value")})
    if got == "livelock":
        # the submitter spins in its workflow loop: no scheduler command while it burnt 6 CPU-seconds, never back in the event loop
        res["counters"]["livelocks_observed"] = 1
        outs = []
        tools = [c[0] for c in calls]
        cause = None
        if "e" in case["user"] and case["worker"] == "slurm" and "sbatch" in tools and "squeue" not in tools:
            cause = "slurm-user-error-option"
        elif any(x["ev"] == "acct_missing_told" for x in events) and tools[-1] == "sacct":
            cause = "acct-lag-fatal"
        if cause and want != "failed":
            outs.append(_viol(res, [{"kind": "worker-error-expected-" + want, "cause": cause}], cause, out, events))
        told_fail = any(x["ev"] == "verdict" and x["state"] != "COMPLETED" for x in events) or cause is not None \
            or any(x["ev"] == "executed" and x["rc"] != 0 for x in events)
        mech = "wf-worker-error-livelock" if case["wf"] != "single" and told_fail else None
        if mech is None and case["wf"] != "single":
            # the scheduler said COMPLETED for a job whose script never ran: worker.run returned, no result
            ran = {x["job"] for x in events if x["ev"] == "executed"}
            if any(x["ev"] == "verdict" and x["state"] == "COMPLETED" and x["job"] not in ran for x in events):
                mech = "wf-no-result-livelock"
        outs.append(_viol({**res, "counters": {} if outs else res["counters"]},
                          bad + [{"kind": "livelock", "stack": out.get("stack")}], mech, out, events))
        return outs[0] if len(outs) == 1 else {"multi": outs}
    if want == "may":
        if got == "complete":
            bad.append({"kind": "complete-without-verdict"})
        elif not bad:
            return {**res, "verdict": "may"}
    elif got != want:
        bad.append({"kind": f"reported-{got}-expected-{want}", "exc": (out.get("exc") or "")[-1200:]})
    # requeue discipline: every cancellation verdict told must be followed by a requeue of that job
    if not bad:
        return {**res, "verdict": "held"}
    return _viol(res, bad, classify(case, out, calls, events, want, got), out, events)


def _viol(res, bad, mech, out, events):
    return {**res, "verdict": "violated", "mech": mech,
            "witness": {"bad": bad[:4], "kinds": sorted({b["kind"] for b in bad}), "events": events[:40],
                        "exception": ((out or {}).get("exc") or "")[-1500:]}}


def classify(case, out, calls, events, want, got):
    exc, et = out.get("exc") or "", out.get("exc_type")
    tools = [c[0] for c in calls]
    if (case["worker"] == "sge" and et == "TypeError" and "threads_used" in exc and "qsub" not in tools):
        return "sge-typeerror"
    if (case["worker"] == "slurm" and "e" in case["user"] and et == "AttributeError"
            and "error_file.replace" in exc and "squeue" not in tools):
        return "slurm-user-error-option"
    told_missing = any(x["ev"] == "acct_missing_told" for x in events)
    if want == "complete" and got == "failed" and told_missing and "Job information not found" in exc:
        return "acct-lag-fatal"
    if want == "complete" and got == "failed" and told_missing and case["wf"] != "single" and "result.errored" in exc:
        # inside a workflow the worker's RuntimeError is stored in the node's error file and the submission only says
        # "errored": the mechanism is recognised by pydra never asking about the job again after the empty sacct answer
        last = {}
        for x in events:
            last[x["job"]] = x["ev"]
        if any(ev == "acct_missing_told" for ev in last.values()):
            return "acct-lag-fatal"
    if want == "failed" and got == "complete":
        # the scheduler's last verdict for some job is a failure although its script ran to a result
        last = {}
        for x in events:
            if x["ev"] == "verdict":
                last[x["job"]] = x["state"]
        ran = {x["job"] for x in events if x["ev"] == "executed" and x["rc"] == 0}
        if any(s not in ("COMPLETED",) and j in ran for j, s in last.items()) or told_missing:
            return "sched-failure-masked-by-result"
    return None


def batch(case, wctx):
    out = []
    for c in case["cases"]:
        r = run_case(c, wctx)
        out.extend(r["multi"] if "multi" in r else [r])
    return {"multi": out}


def run(ctx):
    quick = ctx.tier == "quick"
    n = 32 if quick else 400
    n = int(os.environ.get("VP_DEV_N") or n)  # development aid: a prefix of the same case sequence
    rng = ctx.rng("gen")
    cases = [gen_case(rng, i) for i in range(n)]
    per = 2 if quick else 5
    ctx.rule = ("generated scenarios: worker (slurm 80% / sge 20%) x task shape (single, chain of 2, 2x2 parallel "
                "workflow) x one response script (<=6 steps from pending, running, lagging queue, accounting missing, "
                "cancelled/timeout/preempted or evicted, then run / run-with-failing-body / completed-without-run / "
                "failed(state, rc) / failed-after-run / accounting permanently missing) per job x user -J/-o/-e "
                "options in short/long form; non-trivial = >=2 response steps or a user option; distinct = distinct "
                "scenario")
    results = ctx.pmap("vp.props.c28:batch", [{"cases": cases[i:i + per]} for i in range(0, n, per)],
                       nproc=int(os.environ.get("VP_NPROC") or (8 if quick else 16)), timeout=900 if quick else 10800)
    hist = {}
    for b in results:
        for r in b.get("multi", [b]):
            if r.get("verdict") == "violated":
                k = f"{r.get('mech')}|" + ",".join((r.get("witness") or {}).get("kinds", ["?"]))
                hist[k] = hist.get(k, 0) + 1
    ctx.extra["violation_kinds"] = hist
    ctx.record_all(results)
    ctx.assumptions = ["SLURM/SGE are simulated at the process boundary; simulated time advances only through the "
                       "worker's polls; a worker that polls one job more than 40 times without reacting to a repeated "
                       "verdict is counted as live-locked"]


def replay(ctx, rep):
    from vp.worker import WCtx
    r = run_case(rep["case"], WCtx(ctx.scratch, ctx.seed, ctx.prop, ctx.tier))
    rs = r["multi"] if "multi" in r else [r]
    print(env.jdump([{k: x.get(k) for k in ("verdict", "mech", "witness", "why")} for x in rs], indent=1))
    vs = {x["verdict"] for x in rs}
    return 1 if "violated" in vs else (2 if "inconclusive" in vs else 0)
