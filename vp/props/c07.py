"""C07 — identical computations map to the same cache identity in every session.

Monitor: every group of items (value specs from vp.gen_values used as the input of the module-level
task `Describe`; tasks with 1 and 2 xor groups, also passed *as a value* to another task; a task with a
file input) is handed to several **fresh child interpreters** (`subprocess.run([python, -m,
vp.hash_child])` with a timeout) that differ in PYTHONHASHSEED (0, 1, 2, random ...), in the
insertion order used to build dicts/sets, and in whether the task went through a cloudpickle round
trip.  Each child prints `hash_function(value)` and `Task._checksum`.  A second phase really runs some
items: session A (debug worker, cache root R1), session B (other hash seed and insertion order, cf
worker, same R1) and session C (other cache-root path R2); observed are the execution counter, the
outputs and the names of the cache directories actually created.

Oracle: all sessions print the same checksum / value hash (a value rejected in one session must be
rejected in all); session B executes nothing, creates no directory and returns A's output; the
directory created under R2 has the same name as under R1.
"""
from __future__ import annotations

import json
import os
import subprocess

from vp import env
from vp import gen_values as G

LEVEL = "exploration"
NVAL = 20


def gen_group(rng, thorough):
    items = []
    for _ in range(NVAL):
        d = rng.choice([1, 2, 2, 3, 3, 4 if thorough else 3])
        items.append({"k": "value", "spec": G.gen_value(rng, depth=d)})
    # values the statement names explicitly: frozensets of frozensets, nested dict/set orders
    els = [["frozenset", G._uniq([G.gen_scalar(rng, orderable="str") for _ in range(rng.randint(1, 3))])]
           for _ in range(rng.randint(2, 4))]
    items.append({"k": "value", "spec": ["frozenset", G._uniq(els)]})
    items.append({"k": "value", "spec": ["dict", [[["str", s], ["set", [["str", t] for t in "abcdefg"[:rng.randint(2, 7)]]]]
                                                  for s in rng.sample(["k1", "k2", "zz", "a", "B"], 3)]]})
    # >=2-d arrays: the construction variants build them C- or Fortran-ordered, the pickling variant makes them contiguous
    for _ in range(2):
        while True:
            arr = G.gen_array(rng)
            if len(arr[2]) >= 2 and min(arr[2]) >= 2 and len(set(map(str, arr[3]))) > 1:
                break
        items.append({"k": "value", "spec": arr if rng.random() < 0.5 else ["list", [arr, ["int", 1]]]})
    items.append({"k": "xor", "a": rng.randint(1, 5), "c": rng.randint(1, 5)})
    items.append({"k": "outer-xor", "groups": 2, "n": rng.randint(1, 9)})
    items.append({"k": "outer-xor", "groups": 1, "n": rng.randint(1, 9)})
    items.append({"k": "file", "content": rng.choice(["AAAA", "some text\n", ""])})
    return items


def child(job, scratch, tag, hashseed, hashcache, counter=None, timeout=600):
    jp = scratch / f"job-{tag}.json"
    jp.write_text(env.jdump(job))
    e = dict(os.environ)
    e.update({"PYTHONHASHSEED": str(hashseed), "PYDRA_HASH_CACHE": str(hashcache), "HOME": str(scratch)})
    if counter:
        e["VP_COUNTER"] = str(counter)
    else:
        e.pop("VP_COUNTER", None)
    try:
        p = subprocess.run([env.PY, "-m", "vp.hash_child", str(jp)], cwd=str(env.VERIF), env=e,
                           capture_output=True, text=True, timeout=timeout)
    except subprocess.TimeoutExpired:
        raise env.HarnessError(f"child session {tag} timed out")
    if p.returncode != 0:
        raise env.HarnessError(f"child session {tag} rc={p.returncode}: {p.stderr[-800:]}")
    return json.loads(p.stdout.strip().splitlines()[-1])


def item_mech(it):
    if it["k"] == "value":
        return G.classify_unstable(it["spec"])
    if it["k"] == "outer-xor" and it["groups"] >= 2:
        return "set-of-sets-order"  # Task._xor of a class with >= 2 xor groups is a frozenset of frozensets
    return None


def group_case(case, wctx):
    thorough = wctx.tier != "quick"
    rng = wctx.rng(f"g{case['g']}")
    items = gen_group(rng, thorough)
    d = wctx.fresh_dir("g")
    for it in items:
        if it["k"] == "file":
            p = d / "input.txt"
            p.write_text(it["content"])
            it["path"] = str(p)
    sessions = [("0", 0, False), ("1", rng.randrange(1, 10**6), False), ("2", rng.randrange(1, 10**6), True),
                ("random", rng.randrange(1, 10**6), False)]
    if thorough:
        sessions += [("4242", rng.randrange(1, 10**6), True), ("random", rng.randrange(1, 10**6), False)]
    outs = []
    for n, (hs, var, pk) in enumerate(sessions):
        r = child({"mode": "checksums", "variant": var, "pickle": pk, "items": items}, d, f"s{n}", hs, d / f"hc{n}")
        outs.append(r["res"])
    results = []
    names = [f"seed={hs},order={'listed' if not var else var},pickle={pk}" for hs, var, pk in sessions]
    for j, it in enumerate(items):
        cs = [o[j].get("cs") for o in outs]
        vh = [o[j].get("vh") for o in outs]
        nontriv = it["k"] != "value" or G.size(it["spec"]) >= 2 or it["spec"][0] in ("nd", "ndT")
        r = {"case": {"g": case["g"], "item": it}, "sig": env.sig_of(it), "nontrivial": nontriv,
             "obs": {"checksums": sorted(set(map(str, cs))), "value_hashes": sorted(set(map(str, vh)))},
             "counters": {"items": 1, "child_sessions": len(sessions) if j == 0 else 0,
                          "checksums_observed": len(cs)}}
        if len(set(cs)) > 1 or len(set(vh)) > 1:
            r.update(verdict="violated", mech=item_mech(it),
                     witness={"sessions": names, "checksums": cs, "value_hashes": vh})
        elif str(cs[0]).startswith(("REJECT", "BUILD")):
            r.update(verdict="may", mech="rejected")
            r["counters"]["rejected_everywhere"] = 1
        else:
            r["verdict"] = "held"
        results.append(r)
    # ---- phase 2: a result computed in one session is found by the next ---------------------------
    ok = [j for j, it in enumerate(items) if not str(outs[0][j].get("cs")).startswith(("REJECT", "BUILD"))]
    vals = [j for j in ok if items[j]["k"] == "value" and G.size(items[j]["spec"]) >= 2][:2]
    pick = vals + [j for j in ok if items[j]["k"] in ("outer-xor", "file")]
    run_items = [items[j] for j in pick]
    r1, r2, ctr = d / "root1", d / "other" / "root2", d / "counter"
    hc = d / "hc-run"
    a = child({"mode": "run", "variant": 0, "worker": "debug", "cache_root": str(r1), "items": run_items},
              d, "runA", "0", hc, ctr)["res"]
    b = child({"mode": "run", "variant": rng.randrange(1, 10**6), "worker": "cf", "cache_root": str(r1),
               "items": run_items}, d, "runB", rng.choice(["1", "7", "random"]), hc, ctr)["res"]
    c = child({"mode": "run", "variant": rng.randrange(1, 10**6), "worker": "debug", "cache_root": str(r2),
               "items": run_items}, d, "runC", "3", d / "hc-run2", ctr)["res"]
    for n, j in enumerate(pick):
        it = items[j]
        ra, rb, rc = a[n], b[n], c[n]
        r = {"case": {"g": case["g"], "run_item": it}, "sig": env.sig_of(["run", it]), "nontrivial": True,
             "obs": {"A": ra, "B": rb, "C": rc},
             "counters": {"run_items": 1, "task_runs_observed": 3, "executions_A": ra.get("execs", 0),
                          "executions_B": rb.get("execs", 0)}}
        if "err" in ra:
            r.update(verdict="inconclusive", why="session A could not run the item: " + ra["err"])
            results.append(r)
            continue
        bad = []
        if "err" in rb or rb.get("execs") != 0 or rb.get("dirs") or rb.get("out") != ra.get("out"):
            bad.append("session B (other hash seed / insertion order / cf worker) did not reuse A's result")
        if "err" in rc or rc.get("dirs") != ra.get("dirs") or rc.get("out") != ra.get("out"):
            bad.append("cache directory name under another cache root differs")
        if bad:
            r.update(verdict="violated", mech=item_mech(it), witness={"bad": bad, "A": ra, "B": rb, "C": rc})
        else:
            r["verdict"] = "held"
        results.append(r)
    return {"multi": results}


def run(ctx):
    quick = ctx.tier == "quick"
    ng = 8 if quick else 64
    ctx.rule = (f"groups of {NVAL + 8} items (generated values incl. C-/Fortran-built >=2-d arrays, frozensets of frozensets and permuted dict/set "
                "orders, xor-group tasks as values, a file-input task) whose checksum and value hash are computed in "
                "4 (thorough: 6) fresh interpreters with different PYTHONHASHSEED / insertion order / pickling, plus "
                "run-reuse across sessions, workers and cache roots; non-trivial = container/array value or task/file "
                "item; distinct = distinct items")
    cases = [{"g": g} for g in range(ng)]
    ctx.record_all(ctx.pmap("vp.props.c07:group_case", cases, nproc=8 if quick else 16,
                            timeout=900 if quick else 3000))
    ctx.assumptions = ["PYTHONHASHSEED=random children draw their seed from the OS (not reproducible; the fixed "
                       "seeds 0,1,2 are)", "file inputs keep their path across sessions"]


def replay(ctx, rep):
    from vp.worker import WCtx
    w = WCtx(str(ctx.scratch), ctx.seed, "C07", ctx.tier)
    res = group_case({"g": rep["case"]["g"]}, w)["multi"]
    bad = [r for r in res if r["verdict"] == "violated"]
    print(env.jdump([{"case": r["case"], "mech": r.get("mech"), "witness": r.get("witness")} for r in bad], indent=1)[:6000])
    return 1 if bad else 0
