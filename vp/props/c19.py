"""C19 — task execution cannot silently alter its recorded inputs.

Workload: module-level python tasks (and a shell task over a fake tool) whose body mutates its input
in place in a way chosen by a plain `how` input: list append/setitem/nested, dict setkey/nested, set add,
object attribute/nested, numpy content / shape / dtype, file append (copy mode `copy` vs default) and
non-mutating controls; debug (in-process) and cf (process pool) workers.
Observed per run: deep snapshot of the original object / file before and after, exception or returned
outputs, ERROR records of the `pydra` loggers, `_error.pklz`, names of the result directories in the
cache root vs the checksum computed before submission, and body events (vp.evlog) in which the body
itself states whether its mutation took effect and which path it was given.
Oracle (statement):
  * a mutation of a non-file input that took effect must be reported as an error to the submitter
    (exception / errored result).  An ERROR log line while the call returns a normal result is not an
    error report -> mechanism `hash-change-only-logged`;
  * a file input with copy mode `copy`: the original's content must be unchanged after the run;
  * a file input with another copy mode: if the original changed this must be reported as an error;
  * any stored result lives under the pre-run checksum.
Controls must succeed with the original untouched.
"""
from __future__ import annotations

import copy
import logging
import os
import typing as ty
from pathlib import Path

from fileformats.generic import File
from pydra.compose import python, shell

from vp import env, evlog

LEVEL = "exploration"
TOOL = str(Path(__file__).resolve().parent.parent / "fakes" / "c19_appender")


class Box:
    """plain object input (hashed by pydra through its __dict__)"""

    def __init__(self, a, items):
        self.a = a
        self.items = items

    def __eq__(self, other):
        return isinstance(other, Box) and self.__dict__ == other.__dict__

    def __repr__(self):
        return f"Box({self.a!r},{self.items!r})"


def _digest(x):
    try:
        import numpy as np
        if isinstance(x, np.ndarray):
            import hashlib
            return f"nd:{x.dtype}:{x.shape}:{hashlib.sha1(x.tobytes()).hexdigest()}"
    except ImportError:
        pass
    if isinstance(x, (set, frozenset)):
        return "set:" + repr(sorted(x, key=repr))
    return repr(x)


def _mutate(x, how):
    if how == "none":
        return
    if how == "append":
        x.append(99)
    elif how == "setitem":
        x[0] = 99
    elif how == "nested":
        (x.items if isinstance(x, Box) else x["k"] if isinstance(x, dict) else x[-1]).append(99)
    elif how == "setkey":
        x["new"] = 99
    elif how == "add":
        x.add(99)
    elif how == "attr":
        x.a = 99
    elif how == "content":
        x.flat[0] = 99
    elif how == "content_last":
        x.flat[x.size - 1] = 99
    elif how == "content_mid":
        x.flat[x.size // 2] = 99
    elif how == "shape":
        x.shape = tuple(reversed(x.shape)) if len(set(x.shape)) > 1 else (x.size,)
    elif how == "dtype":
        import warnings
        with warnings.catch_warnings():
            warnings.simplefilter("ignore")
            x.dtype = "int64" if x.dtype.kind == "f" else "float64"
    else:
        raise AssertionError(how)


@python.define(outputs=["out"])
def Mut(x: ty.Any, how: str, tag: str) -> str:
    before = _digest(x)
    err = None
    try:
        _mutate(x, how)
    except Exception as e:  # the mutation itself was impossible (e.g. dtype view refused)
        err = type(e).__name__
    evlog.emit("start", node="Mut", tag=tag, mutated=_digest(x) != before, mut_error=err)
    return "done-" + tag


def _append(x, mutate, tag):
    p = str(x)
    if mutate:
        with open(p, "a") as f:
            f.write("+mut")
    evlog.emit("start", node="PyFile", tag=tag, mutated=bool(mutate), path=p)
    with open(p) as f:
        return f.read()


PyFileAny = python.define(_append, inputs={"x": python.arg(type=File), "mutate": bool, "tag": str},
                          outputs={"out": str}, name="PyFileAny")
PyFileCopy = python.define(_append, inputs={"x": python.arg(type=File, copy_mode=File.CopyMode.copy),
                                            "mutate": bool, "tag": str}, outputs={"out": str}, name="PyFileCopy")
ShFileAny = shell.define(TOOL, inputs={"mutate": shell.arg(type=int, argstr="", position=1),
                                       "x": shell.arg(type=File, argstr="", position=2)}, name="ShFileAny")
ShFileCopy = shell.define(TOOL, inputs={"mutate": shell.arg(type=int, argstr="", position=1),
                                        "x": shell.arg(type=File, argstr="", position=2,
                                                       copy_mode=File.CopyMode.copy)}, name="ShFileCopy")

HOWS = {"list": ["append", "setitem", "nested", "none"], "dict": ["setkey", "nested", "none"],
        "set": ["add", "none"], "object": ["attr", "nested", "none"],
        "numpy": ["content", "content_last", "content_mid", "shape", "dtype", "none"]}
FILE_TASKS = ["PyFileAny", "PyFileCopy", "ShFileAny", "ShFileCopy"]


def make_value(case):
    k, v = case["kind"], case["value"]
    if k == "list":
        return list(v) + [[0]]
    if k == "dict":
        return {**{str(i): e for i, e in enumerate(v)}, "k": [0]}
    if k == "set":
        return set(v)
    if k == "object":
        return Box(v[0], list(v))
    if k == "numpy":
        import numpy as np
        return np.arange(case["shape"][0] * case["shape"][1], dtype=case["dtype"]).reshape(case["shape"])
    raise AssertionError(k)


class _Cap(logging.Handler):
    def __init__(self):
        super().__init__(logging.ERROR)
        self.records = []

    def emit(self, record):
        try:
            self.records.append(record.getMessage()[:400])
        except Exception:
            self.records.append("<unformattable>")


def submit(task, worker, cache):
    cap = _Cap()
    lg = logging.getLogger("pydra")
    lg.addHandler(cap)
    obs = {"raised": None, "outputs": None}
    try:
        kw = {"n_procs": 2} if worker == "cf" else {}
        o = task(cache_root=cache, worker=worker, **kw)
        obs["outputs"] = repr(getattr(o, "out", getattr(o, "stdout", None)))[:80]
    except Exception as e:
        obs["raised"] = f"{type(e).__name__}: {str(e)[:160]}"
    finally:
        lg.removeHandler(cap)
    obs["error_logs"] = cap.records[:3]
    return obs


def decide(case, wctx):
    r = {"case": case, "sig": env.sig_of({k: v for k, v in case.items() if k != "tag"}), "counters": {},
         "distinct": {}}
    c = r["counters"]
    d = wctx.fresh_dir("c")
    cache = d / "cache"
    cache.mkdir()
    log = evlog.start(d / "ev.jsonl")
    is_file = case["kind"] == "file"
    if is_file:
        orig = d / "inputs" / "orig.txt"
        orig.parent.mkdir()
        orig.write_text("orig-" + case["tag"])
        snap = orig.read_text()
        task = globals()[case["task"]](x=File(orig), mutate=(1 if case["mutate"] else 0) if case["task"].startswith("Sh")
                                       else bool(case["mutate"]), **({} if case["task"].startswith("Sh")
                                                                     else {"tag": case["tag"]}))
        copy_mode = "copy" if case["task"].endswith("Copy") else "default"
    else:
        value = make_value(case)
        snap = _digest(copy.deepcopy(value))
        task = Mut(x=value, how=case["how"], tag=case["tag"])
    pre = task._checksum
    obs = submit(task, case["worker"], cache)
    evs = [e for e in evlog.read(log) if e["ev"] == "start"]
    c["submissions"] = 1
    c["body_starts"] = len(evs)
    if len(evs) != 1:
        raise env.HarnessError(f"expected one body event, saw {len(evs)}: {obs}")
    body = evs[0]
    took_effect = bool(body.get("mutated"))
    if is_file:
        after = orig.read_text()
    else:
        after = _digest(value)
    orig_changed = after != snap
    stored = sorted(p.name for p in cache.iterdir() if p.is_dir() and (p / "_result.pklz").exists())
    err_files = sorted(p.parent.name for p in cache.glob("*/_error.pklz"))
    reported = obs["raised"] is not None
    logged = bool(obs["error_logs"] or err_files)
    r["obs"] = {"took_effect": took_effect, "orig_changed": orig_changed, "raised": obs["raised"],
                "outputs": obs["outputs"], "error_logs": len(obs["error_logs"]), "error_files": err_files,
                "stored": stored, "pre": pre, "body_path_is_original": (body.get("path") == str(orig)) if is_file else None,
                "mut_error": body.get("mut_error")}
    c["mutations_effective"] = int(took_effect)
    c["originals_changed"] = int(orig_changed)
    c["errors_raised"] = int(reported)
    c["error_only_logged"] = int(logged and not reported)
    r["nontrivial"] = took_effect
    r["distinct"]["situations"] = [f"{case['kind']}/{case.get('how') or case.get('task')}/{case['worker']}/"
                                   f"{'changed' if orig_changed else 'same'}/{'raised' if reported else 'returned'}"]
    bad, mech = [], None
    if any(s != pre for s in stored):
        bad.append({"why": "a result is stored under an identity other than the pre-run checksum", "stored": stored,
                    "pre": pre})
    if not took_effect:
        if body.get("mut_error"):
            r["nontrivial"] = False
            c["mutation_impossible"] = 1
        elif not is_file and case["how"] != "none" or (is_file and case["mutate"]):
            raise env.HarnessError("mutator had no effect: " + env.jdump(case))
        if reported or orig_changed or not stored:
            bad.append({"why": "non-mutating task failed / original changed / no result stored", "obs": r["obs"]})
    elif not is_file:
        if not reported:
            w = {"why": "in-place modification of an input took effect but the submission returned normally",
                 "logged_only": logged, "orig_changed": orig_changed}
            bad.append(w)
            if case["kind"] == "numpy" and case["how"] in ("shape", "dtype") and not logged:
                mech = "numpy-shape-dtype-not-hashed"   # bytes unchanged, only shape/dtype differ: nothing noticed
            elif logged and case["worker"] != "debug":
                mech = "hash-change-only-logged"        # noticed (ERROR log/_error.pklz) but not raised, result ok
    else:
        if copy_mode == "copy":
            if orig_changed:
                bad.append({"why": "file input with copy mode 'copy': the original was modified by the task",
                            "body_got_original_path": r["obs"]["body_path_is_original"], "raised": obs["raised"]})
                if case["task"].startswith("Py") and r["obs"]["body_path_is_original"]:
                    mech = "python-copy-mode-ignored"   # python body is handed the original path, no staging
        elif orig_changed and not reported:
            bad.append({"why": "original file changed through a non-copied input and nothing was raised",
                        "logged_only": logged})
            if logged and case["worker"] != "debug":
                mech = "hash-change-only-logged"
    if bad:
        r["verdict"] = "violated"
        r["witness"] = {"first": bad[:3], "obs": r["obs"]}
        r["mech"] = mech if len(bad) == 1 else None
    else:
        r["verdict"] = "held"
    return r


def case_batch(case, wctx):
    return {"multi": [decide(c, wctx) for c in case["cases"]]}


def gen_cases(rng, n, n_cf):
    combos = [(k, h) for k, hs in HOWS.items() for h in hs] + [("file", t + ("+" if m else "-"))
                                                               for t in FILE_TASKS for m in (1, 0)]
    cf_combos = [("list", "append"), ("numpy", "content"), ("file", "PyFileCopy+"), ("file", "ShFileAny+"),
                 ("dict", "nested"), ("numpy", "shape"), ("object", "attr"), ("file", "ShFileCopy+"), ("set", "none"),
                 ("file", "PyFileAny+")]
    cases = []
    for i in range(n):
        if i < n_cf:
            kind, how = cf_combos[i % len(cf_combos)] if i < len(cf_combos) else rng.choice(combos)
            worker = "cf"
        else:
            j = i - n_cf
            kind, how = combos[j % len(combos)] if j < len(combos) else rng.choice(combos)
            worker = "debug"
        case = {"kind": kind, "worker": worker, "tag": f"t{i}"}
        if kind == "file":
            case.update(task=how[:-1], mutate=how.endswith("+"))
        else:
            case.update(how=how, value=[rng.randint(1, 50) for _ in range(rng.randint(2, 4))])
            if kind == "numpy":
                # small arrays and arrays of several tens of KB (whose data may be hashed in pieces)
                big = how in ("content_last", "content_mid") or rng.random() < 0.2
                case.update(shape=rng.choice([[60, 100], [3000, 3], [1, 5000]] if big else [[2, 3], [3, 2], [1, 4], [2, 2]]),
                            dtype=rng.choice(["float64", "int64"]))
        cases.append(case)
    return cases


def run(ctx):
    quick = ctx.tier == "quick"
    n = 50 if quick else 400
    cases = gen_cases(ctx.rng("gen"), n, 4 if quick else 30)
    per = 1 if quick else 8
    ctx.rule = ("every (value kind, mutator) pair over list/dict/set/object/numpy (content, shape, dtype) and file inputs "
                "(python and shell task, copy mode copy/default, mutate or not) with random contents, non-mutating controls, "
                "debug worker and a few cf runs; non-trivial = the body's own event says the mutation took effect; "
                "distinct = (kind, mutator/task, worker, contents)")
    res = ctx.pmap("vp.props.c19:case_batch", [{"cases": cases[i:i + per]} for i in range(0, n, per)],
                   nproc=8 if quick else 16, timeout=400 if quick else 3000)
    ctx.record_all(res)
    ctx.assumptions = ["under the cf worker the body works on a pickled copy, so originals of in-memory values cannot "
                       "change there; what is judged is whether the modification is reported to the submitter"]


def replay(ctx, rep):
    from vp.worker import WCtx
    r = decide(rep["case"], WCtx(ctx.scratch, ctx.seed, ctx.prop, ctx.tier))
    print(env.jdump(r, indent=1))
    return 1 if r["verdict"] == "violated" else 0
