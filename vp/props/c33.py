"""C33 — workflow output files are collected into the workflow's cache directory without
clashes or loss.

Workload: real workflows (3 python nodes, debug and cf workers) whose nodes return generated
nested lists / tuples / dicts of fileformats File and Directory objects.  The objects point at
sources in several harness-made directories *and* at files the nodes create in their own job
directories, with colliding base names (same name in several directories, a name that already
looks like a clash-renamed one, multi-dot and dot-less names, a directory and a file of one
name), repeated objects, equal-but-distinct objects, the same node output wired to two workflow
outputs, symlinked sources and (rarely) names pydra itself uses inside a job directory.

Oracle (model free; sources are identified by their position in the generated value; in 4 of 5 cases
every source has unique content, in 1 of 5 most sources share one of two contents):
  * every file leaf of every workflow output lies inside the workflow's cache directory,
  * its digest equals the digest of the source at the same position of the generated value,
  * no destination path is shared by (or nested in the destination of) two distinct sources,
  * container shape, container kinds, dict keys and non-file leaves are unchanged,
  * every source still has its original digest afterwards (nothing was overwritten),
  * the workflow does not fail.
Not demanded (statement silent): that one source appearing in two output fields gets a single
destination; which of copy / hard link was used.
"""
from __future__ import annotations

import os
import typing as ty
from pathlib import Path

from vp import env, iofiles as IO

LEVEL = "exploration"

HOT = ["x.txt", "out.txt", "data.nii.gz", "noext", ".hidden", "x (1).txt", "sub", "res.d"]
RESERVED = ["_result.pklz", "_job.pklz", "_error.pklz"]


# ------------------------------------------------------------------------------------------
# tasks (module level: importable by pool workers)
# ------------------------------------------------------------------------------------------

def _defs():
    from pydra.compose import python, workflow

    @python.define(outputs=["out", "cat"])
    def Mk(spec: dict, cat: dict, new: list) -> tuple[ty.Any, dict]:
        local = IO.make_sources(Path.cwd(), new)
        return IO.build(spec, {**cat, **local}), local

    @workflow.define(outputs=["o0", "o1", "o2", "c0", "c1", "c2"])
    def W3(s0: dict, s1: dict, s2: dict, cat: dict, w0: list, w1: list, w2: list
           ) -> tuple[ty.Any, ty.Any, ty.Any, dict, dict, dict]:
        n0 = workflow.add(Mk(spec=s0, cat=cat, new=w0), name="n0")
        n1 = workflow.add(Mk(spec=s1, cat=cat, new=w1), name="n1")
        n2 = workflow.add(Mk(spec=s2, cat=cat, new=w2), name="n2")
        return n0.out, n1.out, n2.out, n0.cat, n1.cat, n2.cat

    @workflow.define(outputs=["o0", "o1", "o2", "c0", "c1", "c2"])
    def Wdup(s0: dict, s1: dict, s2: dict, cat: dict, w0: list, w1: list, w2: list
             ) -> tuple[ty.Any, ty.Any, ty.Any, dict, dict, dict]:
        """node 0's value is wired to two workflow outputs"""
        n0 = workflow.add(Mk(spec=s0, cat=cat, new=w0), name="n0")
        n2 = workflow.add(Mk(spec=s2, cat=cat, new=w2), name="n2")
        return n0.out, n0.out, n2.out, n0.cat, n0.cat, n2.cat

    return Mk, W3, Wdup


try:  # pydra is bound by the check CLI / worker before this module is imported
    Mk, W3, Wdup = _defs()
except Exception:  # pragma: no cover - import without a bound tree (e.g. tooling)
    Mk = W3 = Wdup = None


# ------------------------------------------------------------------------------------------
# generation
# ------------------------------------------------------------------------------------------

def gen_spec(rng, pool, depth=0):
    """random nested value over the source ids in pool"""
    r = rng.random()
    if depth >= 3 or (depth > 0 and r < 0.45):
        if rng.random() < 0.12:
            return {"t": "lit", "v": rng.choice([0, 7, "plain", None, "x.txt"])}
        sid, kind = rng.choice(pool)
        leaf = {"t": kind, "src": sid}
        if rng.random() < 0.2:
            leaf["fresh"] = True
        return leaf
    kind = rng.choice(["list", "list", "tuple", "dict"])
    n = rng.randint(1, 3 if depth else 4)
    kids = [gen_spec(rng, pool, depth + 1) for _ in range(n)]
    if kind == "dict":
        return {"t": "dict", "v": {f"k{i}": k for i, k in enumerate(kids)}}
    return {"t": kind, "v": kids}


def gen_case(rng, reserved=False, alike=False):
    hot = rng.sample(HOT, rng.randint(2, 3))
    if reserved:
        hot[0] = rng.choice(RESERVED)
    layout = []
    dirs = ["d0", "d1", "d2", "d0/deep"][: rng.randint(2, 4)]
    for d in dirs:
        for nm in hot:
            if rng.random() < 0.75:
                kind = "D" if nm in ("sub", "res.d") or rng.random() < 0.08 else "F"
                e = {"id": f"s{len(layout)}", "kind": kind, "rel": f"{d}/{nm}"}
                if kind == "F" and rng.random() < 0.04:
                    e["link"] = rng.choice(["abs", "rel"])
                layout.append(e)
    news, specs = [], []
    for k in range(3):
        new = []
        for nm in hot:
            # (a body writing a file called _result.pklz into its own job directory is overwritten by the
            # node's own result; that is not about collecting workflow outputs -> reserved names only pre-made)
            if rng.random() < 0.4 and nm not in RESERVED:
                kind = "D" if nm in ("sub", "res.d") else "F"
                new.append({"id": f"n{k}_{len(new)}", "kind": kind, "rel": nm})
        news.append(new)
        pool = [(e["id"], e["kind"]) for e in layout + new]
        if not pool:
            pool = [(layout[0]["id"], layout[0]["kind"])] if layout else []
        specs.append(gen_spec(rng, pool) if pool else {"t": "lit", "v": 0})
    if alike:
        # distinct sources with byte-identical content (same-named logs of several nodes, empty files, equal masks)
        for e in layout + [x for nw in news for x in nw]:
            if rng.random() < 0.7:
                e["alike"] = rng.randrange(2)
    return {"layout": layout, "news": news, "specs": specs,
            "wf": "Wdup" if rng.random() < 0.2 else "W3",
            "worker": "cf" if rng.random() < 0.07 else "debug"}


def collisions(case):
    """number of base names used by >= 2 distinct sources among the output leaves"""
    by_id = {e["id"]: e for e in case["layout"]}
    for new in case["news"]:
        by_id.update({e["id"]: e for e in new})
    names = {}
    outs = case["specs"] if case["wf"] == "W3" else [case["specs"][0], case["specs"][0], case["specs"][2]]
    for s in outs:
        for _, leaf in IO.leaves(s):
            names.setdefault(os.path.basename(by_id[leaf["src"]]["rel"]), set()).add(leaf["src"])
    return sum(1 for v in names.values() if len(v) >= 2)


# ------------------------------------------------------------------------------------------
# run + decide
# ------------------------------------------------------------------------------------------

def classify(case, why, detail):
    """mechanism ids: see proposed/findings-C33.json"""
    by_id = {e["id"]: e for e in case["layout"]}
    text = str(detail)
    used = {leaf["src"] for s in case["specs"] for _, leaf in IO.leaves(s)}
    if why in ("error", "source-changed", "digest") and any(
            os.path.basename(by_id[s]["rel"]) in RESERVED for s in used if s in by_id) and any(
            r in text for r in RESERVED):
        return "job-dir-file-name-clash"
    if why in ("error", "digest") and any(by_id[s].get("link") == "rel" for s in used if s in by_id) and (
            "do not exist" in text or "dangling" in text):
        return "relative-symlink-source"
    return None


def decide(case, wctx):
    from pydra.engine.submitter import Submitter
    from pydra.engine.workflow import Workflow
    r = {"case": case, "sig": env.sig_of(case), "counters": {}, "distinct": {}}
    ncoll = collisions(case)
    r["nontrivial"] = ncoll >= 1
    root = wctx.fresh_dir("src")
    cache = wctx.fresh_dir("cache")
    cat = IO.make_sources(root, case["layout"])
    Workflow.clear_cache()
    wf = (W3 if case["wf"] == "W3" else Wdup)(
        s0=case["specs"][0], s1=case["specs"][1], s2=case["specs"][2], cat=cat,
        w0=case["news"][0], w1=case["news"][1], w2=case["news"][2])
    kw = {"n_procs": 2} if case["worker"] == "cf" else {}
    err = None
    try:
        with Submitter(worker=case["worker"], cache_root=cache, **kw) as sub:
            res = sub(wf, raise_errors=True)
    except Exception as e:
        err = f"{type(e).__name__}: {str(e)[:400]}"
    r["counters"]["workflows_run"] = 1
    r["counters"]["worker_" + case["worker"]] = 1
    r["counters"]["name_collisions_generated"] = ncoll
    bad = []

    def viol(why, detail):
        bad.append({"why": why, "detail": detail})

    after = IO.redigest(cat)
    changed = [k for k in cat if after[k] != cat[k]["digest"]]
    if changed:
        viol("source-changed", {k: [cat[k]["path"], cat[k]["digest"], after[k]] for k in changed[:4]})
    if err is not None:
        viol("error", err)
    else:
        wfdir = str(res.cache_dir)
        outs = [res.outputs.o0, res.outputs.o1, res.outputs.o2]
        cats = [res.outputs.c0, res.outputs.c1, res.outputs.c2]
        specs = case["specs"] if case["wf"] == "W3" else [case["specs"][0], case["specs"][0], case["specs"][2]]
        dests = {}
        nleaves = 0
        for k in range(3):
            full = {**cat, **cats[k]}
            rep = IO.report(outs[k])
            if IO.report_shape(rep) != IO.spec_shape(specs[k]):
                viol("shape", {"output": k, "expected": IO.spec_shape(specs[k]), "got": IO.report_shape(rep)})
                continue
            for (pos, leaf), (_, got) in zip(IO.leaves(specs[k]), IO.report_leaves(rep)):
                nleaves += 1
                src = full[leaf["src"]]
                if not IO.inside(got["path"], wfdir) or got["path"] == wfdir:
                    viol("outside", {"output": k, "pos": list(pos), "path": got["path"], "wfdir": wfdir})
                if got["digest"] != src["digest"]:
                    viol("digest", {"output": k, "pos": list(pos), "source": src["path"], "dest": got["path"],
                                    "source_digest": src["digest"], "dest_digest": got["digest"],
                                    "dangling": got["islink"] and not got["exists"]})
                dests.setdefault(got["path"], set()).add(src["path"])
            for sid, s in cats[k].items():
                if IO.digest(s["path"]) != s["digest"]:
                    viol("source-changed", {sid: [s["path"], s["digest"], IO.digest(s["path"])]})
        for d, srcs in dests.items():
            if len(srcs) > 1:
                viol("clash", {"dest": d, "sources": sorted(srcs)})
        dl = sorted(dests)
        for a in dl:
            for b in dl:
                if a != b and IO.inside(b, a) and dests[a] != dests[b]:
                    viol("nested-dest", {"outer": a, "inner": b})
        r["counters"]["file_leaves_checked"] = nleaves
        r["counters"]["destinations"] = len(dests)
        r["counters"]["renamed_destinations"] = sum(
            1 for d, s in dests.items() if os.path.basename(d) != os.path.basename(next(iter(s))))
        r["obs"] = {"wfdir_listing": sorted(os.listdir(wfdir))[:12], "leaves": nleaves}
    if bad:
        mechs = {classify(case, b["why"], b["detail"]) for b in bad}
        r["verdict"] = "violated"
        r["mech"] = mechs.pop() if len(mechs) == 1 else None
        r["witness"] = {"violations": bad[:5]}
    else:
        r["verdict"] = "held"
    return r


def case_batch(case, wctx):
    out = []
    for c in case["cases"]:
        try:
            out.append(decide(c, wctx))
        except Exception as e:
            out.append({"verdict": "inconclusive", "case": c, "why": "harness exception: " + env.short_tb(e)})
    return {"multi": out}


def run(ctx):
    quick = ctx.tier == "quick"
    rng = ctx.rng("gen")
    n = 150 if quick else 3000
    cases = [gen_case(rng, reserved=(i % 25 == 7), alike=(i % 5 == 3)) for i in range(n)]
    per = 10 if quick else 40
    ctx.rule = ("generated workflows of 3 nodes returning nested list/tuple/dict values (depth <= 3) of File/Directory "
                "objects over 2-4 source directories + node-made files with 2-3 shared base names; non-trivial = at least "
                "one base name used by >= 2 distinct sources among the outputs; distinct = distinct generated case")
    res = ctx.pmap("vp.props.c33:case_batch", [{"cases": cases[i:i + per]} for i in range(0, n, per)],
                   nproc=8 if quick else 16, timeout=900 if quick else 3300)
    ctx.record_all(res)
    ctx.assumptions = ["sources, cache and job directories are on one tmpfs (hard links possible); "
                       "source identity is positional (generated value vs returned value); 1 case in 5 uses byte-identical content in distinct sources"]


def replay(ctx, rep):
    from vp.worker import WCtx
    r = decide(rep["case"], WCtx(ctx.scratch, ctx.seed, ctx.prop, ctx.tier))
    print(env.jdump(r, indent=1))
    return 1 if r["verdict"] == "violated" else 0
