"""C13 — failures are reported and never cached as success; a python task whose return value lacks a
mandatory declared output must fail.

Workload: module-level python / shell / workflow tasks whose failure is controlled by the *content* of a
flag file named by a plain `str` input (the content is not part of the cache identity), so the very same
task (same checksum) first fails k times and then, after the flag is flipped, can succeed:
    fail^k -> ok -> ok        k in 1..3, each step through either `task(...)` or `Submitter(...)(task,
                              raise_errors=False)`, worker debug or cf, one cache_root per history.
Failure modes: raise, wrong tuple arity, dict return lacking a mandatory output, shell non-zero exit
(with / without the output file), failing node inside a workflow.
Observed per step: the exception or `result.errored` + `result.errors`, body / tool invocations in the
vp.evlog file (so "executed again" is seen, not assumed), the `errored` flag of the stored result.
Oracle (statement): a failing step must be reported as failed, the report must carry the exception text
for raised errors, every resubmission while failing must execute the body again, and the first
submission after the flip must execute and succeed with the right outputs.
MAY: python function returning None for declared outputs; shell tool exiting 0 without its declared
output file (the statement's missing-output clause names python tasks only); whether the successful
result is served from the cache afterwards (other properties).
"""
from __future__ import annotations

import os
import time
from pathlib import Path

from fileformats.generic import File
from pydra.compose import python, shell, workflow

from vp import env, evlog

LEVEL = "exploration"
TOOL = str(Path(__file__).resolve().parent.parent / "fakes" / "c13_tool")


def _state(flag):
    with open(flag) as f:
        return f.read().strip()


@python.define(outputs={"p": int, "q": int})
def PyFail(flag: str, mode: str, tag: str):
    evlog.emit("start", node="PyFail", tag=tag)
    if _state(flag) == "ok":
        return {"p": 1, "q": 2} if mode.startswith("dict") else (1, 2)
    if mode == "raise":
        raise ValueError("boom-" + tag)
    if mode == "dict_missing":
        return {"p": 1}
    if mode == "dict_missing_extra":
        return {"p": 1, "zz": 5}
    if mode == "tuple_short":
        return (1,)
    if mode == "tuple_long":
        return (1, 2, 3)
    if mode == "none":
        return None
    raise AssertionError("unknown mode " + mode)


@python.define(outputs={"p": int, "q": int, "r": python.out(type=int, default=7)})
def PyOpt(flag: str, mode: str, tag: str):
    """control: output r has a default, so a dict without r provides every *mandatory* output"""
    evlog.emit("start", node="PyOpt", tag=tag)
    if _state(flag) == "ok" or mode == "dict_optional_missing":
        return {"p": 1, "q": 2}
    raise ValueError("boom-" + tag)


@python.define(outputs={"out": int})
def Inc(x: int, tag: str):
    evlog.emit("start", node="Inc", tag=tag)
    return x + 1


@shell.define
class ShFail(shell.Task["ShFail.Outputs"]):
    executable = TOOL
    flag: str = shell.arg(argstr="", position=1)
    mode: str = shell.arg(argstr="", position=2)
    tag: str = shell.arg(argstr="", position=3)

    class Outputs(shell.Outputs):
        made: File = shell.outarg(path_template="made_{tag}.txt", argstr="--out", position=4)


@workflow.define(outputs=["out"])
def WfFail(flag: str, mode: str, tag: str):
    n = workflow.add(PyFail(flag=flag, mode=mode, tag=tag), name="n")
    m = workflow.add(Inc(x=n.q, tag=tag), name="m")
    return m.out


PY_MODES = ["raise", "dict_missing", "dict_missing_extra", "tuple_short", "tuple_long", "none"]
SH_MODES = ["exit", "exit_with_file", "nofile", "sigkill", "sigterm"]   # sig*: the command dies from a signal
WF_MODES = ["raise", "tuple_short", "dict_missing"]
MAY_MODES = {"none", "nofile"}
MISSING_DICT = {"dict_missing", "dict_missing_extra"}


def make_task(case, flag):
    k, mode, tag = case["kind"], case["mode"], case["tag"]
    if k == "python":
        return PyFail(flag=str(flag), mode=mode, tag=tag)
    if k == "pyopt":
        return PyOpt(flag=str(flag), mode=mode, tag=tag)
    if k == "shell":
        return ShFail(flag=str(flag), mode=mode, tag=tag)
    return WfFail(flag=str(flag), mode=mode, tag=tag)


def _exc_text(e):
    parts, seen = [], set()
    while e is not None and id(e) not in seen:
        seen.add(id(e))
        parts.append(f"{type(e).__name__}: {e}")
        parts.extend(getattr(e, "__notes__", []) or [])
        e = e.__cause__ or e.__context__
    return "\n".join(parts)


def submit(task, api, worker, cache):
    """-> dict(failed, text, outputs)"""
    from pydra.engine.submitter import Submitter
    kw = {"n_procs": 2} if worker == "cf" else {}
    obs = {"failed": False, "text": "", "outputs": None, "how": None}
    try:
        if api == "call":
            o = task(cache_root=cache, worker=worker, **kw)
        else:
            with Submitter(worker=worker, cache_root=cache, **kw) as sub:
                res = sub(task, raise_errors=False)
            if res.errored:
                obs.update(failed=True, how="result.errored",
                           text="\n".join((res.errors or {}).get("error message", [])) if res.errors else "")
                return obs
            o = res.outputs
        obs["outputs"] = {n: repr(getattr(o, n, None)) for n in ("p", "q", "r", "out", "return_code")
                          if hasattr(o, n)}
        if hasattr(o, "made"):
            try:
                obs["outputs"]["made"] = Path(str(o.made)).read_text()
            except Exception as e:
                obs["outputs"]["made"] = "unreadable:" + type(e).__name__
    except Exception as e:
        obs.update(failed=True, how="raised " + type(e).__name__, text=_exc_text(e))
    return obs


def stored_results(cache):
    """errored flags of the results stored in the cache (python/shell/workflow dirs)"""
    import cloudpickle as cp
    out = {}
    for d in sorted(Path(cache).iterdir()):
        rf = d / "_result.pklz"
        if d.is_dir() and rf.exists() and rf.stat().st_size:
            try:
                with open(rf, "rb") as f:
                    out[d.name] = bool(cp.load(f).errored)
            except Exception as e:
                out[d.name] = "unloadable:" + type(e).__name__
    return out


WANT = {"python": {"p": "1", "q": "2"}, "pyopt": {"p": "1", "q": "2"}, "workflow": {"out": "3"}}


def good_outputs(case, obs):
    o = obs["outputs"] or {}
    if case["kind"] == "shell":
        return o.get("made") == "made-" + case["tag"] and o.get("return_code") == "0"
    return all(o.get(k) == v for k, v in WANT[case["kind"]].items())


def decide(case, wctx):
    from pydra.engine.workflow import Workflow
    Workflow.clear_cache()
    t_start = time.time()
    r = {"case": case, "sig": env.sig_of({k: case[k] for k in ("kind", "mode", "worker", "steps")}),
         "counters": {}, "distinct": {}, "nontrivial": True}
    c = r["counters"]
    d = wctx.fresh_dir("h")
    flag = d / "flag"
    flag.write_text("fail")
    cache = d / "cache"
    cache.mkdir()
    log = evlog.start(d / "ev.jsonl")
    control = case["kind"] == "pyopt" and case["mode"] == "dict_optional_missing"
    body = {"python": "PyFail", "pyopt": "PyOpt", "shell": "c13_tool", "workflow": "PyFail"}[case["kind"]]
    trace, bad, may = [], [], []
    seen = 0
    for i, (want, api) in enumerate(case["steps"]):
        if want == "ok":
            flag.write_text("ok")
        obs = submit(make_task(case, flag), api, case["worker"], cache)
        ev = [e for e in evlog.read(log) if e["ev"] == "start" and e["node"] == body]
        ran = len(ev) - seen
        seen = len(ev)
        c["submissions"] = c.get("submissions", 0) + 1
        c["body_starts"] = c.get("body_starts", 0) + ran
        st = stored_results(cache)
        trace.append({"step": i, "want": want, "api": api, "failed": obs["failed"], "how": obs["how"], "ran": ran,
                      "outputs": obs["outputs"], "stored_errored": sorted(set(map(str, st.values())))})
        if want == "fail" and not control:
            c["failing_steps"] = c.get("failing_steps", 0) + 1
            if not obs["failed"]:
                (may if case["mode"] in MAY_MODES else bad).append(
                    {"step": i, "why": "failing task reported as success", "outputs": obs["outputs"], "ran": ran})
                continue
            c["failures_reported"] = c.get("failures_reported", 0) + 1
            if ran != 1:
                bad.append({"step": i, "why": "failing task was not executed (again) on this submission: "
                            f"{ran} body starts", "how": obs["how"]})
            if case["mode"] in ("raise", "exit", "exit_with_file", "sigkill", "sigterm") and ("boom-" + case["tag"]) not in obs["text"]:
                bad.append({"step": i, "why": "reported failure does not carry the recorded error text",
                            "text": obs["text"][-300:], "how": obs["how"]})
            leaf_ok = sorted(k.split("-")[0] for k, v in st.items() if v is False and not k.startswith("workflow"))
            if leaf_ok and case["mode"] not in MAY_MODES:
                bad.append({"step": i, "why": "the failing task's own result is stored as a success", "stored": st})
            if st and not any(v is True for v in st.values()):
                bad.append({"step": i, "why": "after a failure no stored result is marked errored", "stored": st})
        else:
            c["ok_steps"] = c.get("ok_steps", 0) + 1
            first_ok = all(w == "fail" for w, _ in case["steps"][:i])
            if obs["failed"]:
                bad.append({"step": i, "why": "succeeding task reported as failed", "text": obs["text"][-300:],
                            "stale": bool("NOT RETRIEVED" in obs["text"] or
                                          (obs["how"] == "result.errored" and not obs["text"]))})
            elif not good_outputs(case, obs):
                (may if (may and not bad) else bad).append(
                    {"step": i, "why": "successful submission returned wrong/empty outputs", "outputs": obs["outputs"]})
            elif first_ok and not control and ran != 1 and not may:
                bad.append({"step": i, "why": f"first submission after the flip executed the body {ran} times"})
            elif not first_ok or control:
                c["later_ok_served_from_cache"] = c.get("later_ok_served_from_cache", 0) + (1 if ran == 0 else 0)
    r["obs"] = {"trace": trace}
    c[f"ms_{case['kind']}_{case['worker']}"] = int((time.time() - t_start) * 1000)
    r["distinct"]["failure_reports"] = sorted({t["how"] for t in trace if t["how"]})
    if bad:
        r["verdict"] = "violated"
        r["witness"] = {"first": bad[:3], "trace": trace}
        first = bad[0]
        r["mech"] = classify(case, first, trace)
        if r["mech"] == "stale-errored-flag" and any(classify(case, b, trace) != r["mech"] for b in bad[1:]):
            r["mech"] = None  # something else is wrong in this history as well
    elif may:
        r["verdict"] = "may"
        r["obs"]["may"] = may[:2]
    else:
        r["verdict"] = "held"
    return r


def classify(case, first, trace):
    """mechanism of the first deviation of a history"""
    i = first["step"]
    t = trace[i]
    if case["mode"] in MISSING_DICT and case["kind"] in ("python", "workflow") and t["want"] == "fail":
        # the function returned a dict without a mandatory declared output ...
        if first["why"] == "failing task reported as success":
            return "missing-output-accepted"  # ... and the submission succeeded
        if case["kind"] == "workflow" and "False" in t["stored_errored"] and t["ran"] <= 1:
            return "missing-output-accepted"  # ... and the node's result was stored as a success
    if (first["why"] == "succeeding task reported as failed" and i > 0 and trace[i - 1]["failed"]
            and (t["ran"] == 1 or (case["kind"] == "workflow" and t["ran"] == 0))
            and "False" in t["stored_errored"] and first.get("stale")):
        # body re-executed fine and a good result was stored, but the submission still reports the *previous*
        # failure (no error record): errored state remembered from the stale cached result
        return "stale-errored-flag"
    return None


def case_batch(case, wctx):
    return {"multi": [decide(c, wctx) for c in case["cases"]]}


def gen_cases(rng, n, n_cf):
    cases = []
    combos = ([("python", m) for m in PY_MODES] + [("shell", m) for m in SH_MODES] +
              [("workflow", m) for m in WF_MODES] + [("pyopt", "dict_optional_missing"), ("pyopt", "raise")])
    cf_combos = [("python", "raise"), ("workflow", "raise"), ("python", "dict_missing"), ("python", "tuple_short"),
                 ("workflow", "tuple_short")]
    for i in range(n):
        if i < n_cf:  # the pool worker costs seconds per submission: few, short histories, scheduled first
            kind, mode = cf_combos[i % len(cf_combos)]
            worker, k, n_ok = "cf", 1 + (i // len(cf_combos)) % 2, 1
        else:
            j = i - n_cf
            kind, mode = combos[j % len(combos)] if j < 2 * len(combos) else rng.choice(combos)
            worker, k, n_ok = "debug", rng.randint(1, 3), rng.randint(1, 2)
        steps = [["fail", rng.choice(["call", "submitter"])] for _ in range(k)]
        steps += [["ok", rng.choice(["call", "submitter"])] for _ in range(n_ok)]
        cases.append({"kind": kind, "mode": mode, "worker": worker, "steps": steps, "tag": f"t{i}"})
    return cases


def run(ctx):
    quick = ctx.tier == "quick"
    n = 70 if quick else 600
    cases = gen_cases(ctx.rng("gen"), n, 2 if quick else 40)
    per = 1 if quick else 10
    ctx.rule = ("histories fail^k (k=1..3) -> ok (x1-2) of one task with a fixed cache identity (failure driven by the "
                "content of a flag file named by a str input) over python/shell/workflow tasks and failure modes raise, "
                "tuple arity, dict lacking a mandatory output, non-zero exit, missing output file, failing workflow node; "
                "submission via task() or Submitter(raise_errors=False); workers debug/cf; non-trivial = every history "
                "(>=1 failing submission followed by a flip); distinct = (kind, mode, worker, step sequence)")
    res = ctx.pmap("vp.props.c13:case_batch", [{"cases": cases[i:i + per]} for i in range(0, n, per)],
                   nproc=8 if quick else 16, timeout=400 if quick else 3000)
    ctx.record_all(res)
    ctx.assumptions = ["flag-file content is outside the cache identity by construction (plain str input)"]


def replay(ctx, rep):
    from vp.worker import WCtx
    r = decide(rep["case"], WCtx(ctx.scratch, ctx.seed, ctx.prop, ctx.tier))
    print(env.jdump(r, indent=1))
    return 1 if r["verdict"] == "violated" else 0
