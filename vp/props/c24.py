"""C24 - Task.cmdline is a faithful POSIX-shell rendering of the executed argv.

Workload: C22-style definitions (1-4 fields, all kinds/positions) whose string values, file names
and list `append_args` are drawn from the C23 alphabet (space, tab, quotes, backslash, $ * ; unicode,
leading -), plus empty-string arguments and a multi-word executable.
Observe: `task.cmdline` and - from the *same task instance*, run end to end - the argv handed to
`pydra.environments.base.execute` (and received by the really executed dumpargv).
Oracle: the statement's own criterion: `shlex.split(cmdline, posix=True)` must equal the executed
argv.  When that holds, the stricter reading is also checked with a real shell: `/bin/sh -c cmdline`
(empty cwd, empty PATH) must hand dumpargv exactly the executed arguments.
The check is relative to whatever argv pydra executes, so it is independent of C22/C23 defects;
cases whose command cannot be built at all (C23's retokenise failures) give nothing to compare -> MAY.
Mechanism classifier: `cmdline-underquoted` = the displayed line is exactly the executed arguments
joined by blanks with only the space-containing ones wrapped in '...', and some executed argument
is empty or contains a character that needs more than that (quote, backslash, tab, newline; for the
real-shell oracle also $ * ; and other metacharacters).  Any other rendering is a new violation.
"""
from __future__ import annotations

import shlex

from vp import env
from vp import gen_shell as G

LEVEL = "exploration"


def run_one(case, d, tag):
    obs = G.observe(case, d, G.unique_name("C24T", [case, tag]), want_cmdline=True)
    r = {"case": case, "sig": env.sig_of(case), "nontrivial": False,
         "counters": {"tasks_built": 0}, "distinct": {}}
    r["obs"] = {"cmdline": obs.get("cmdline"), "captured": obs["captured"]}
    if "define_error" in obs:
        r["counters"]["may_definition_rejected"] = 1
        return dict(r, verdict="may")
    r["counters"]["tasks_built"] = 1
    if obs["captured"] is None:
        r["counters"]["may_command_not_executed"] = 1
        r["obs"]["error"] = (obs.get("run_error") or "")[:200]
        return dict(r, verdict="may")
    argv = obs["captured"]
    r["counters"].update(argv_captured=1, cmdline_read=1)
    if obs["received"] != argv[1:]:
        return dict(r, verdict="inconclusive", why="process argv differs from captured argv (C22/C23 subject)")
    args = argv[1:]
    r["nontrivial"] = any(not all(ch in G.SAFE for ch in a) or a == "" for a in args)
    r["distinct"] = {"arg_classes": sorted({cls for a in args for cls in arg_class(a)})}
    if "cmdline_error" in obs:
        return dict(r, verdict="violated", mech=None,
                    witness={"cmdline_error": obs["cmdline_error"], "executed": argv})
    cl = obs["cmdline"]
    try:
        back = shlex.split(cl, posix=True)
    except ValueError as e:
        back = f"ValueError: {e}"
    if back != argv:
        mech = "cmdline-underquoted" if (cl == space_only_rendering(argv) and
                                         any(G.needs_more_than_space_quoting(a) for a in argv)) else None
        return dict(r, verdict="violated", mech=mech,
                    witness={"cmdline": cl, "executed": argv, "posix_split_of_cmdline": back, "oracle": "shlex"})
    r["counters"]["shlex_roundtrips"] = 1
    shd = d / "shcwd"
    shd.mkdir(exist_ok=True)
    got = G.sh_split(cl, str(shd))
    r["counters"]["real_shell_runs"] = 1
    if got != args:
        mech = "cmdline-underquoted" if (cl == space_only_rendering(argv) and
                                         any(G.needs_more_than_space_quoting(a, shell=True) for a in argv)) else None
        return dict(r, verdict="violated", mech=mech,
                    witness={"cmdline": cl, "executed": argv, "argv_via_sh": got, "oracle": "/bin/sh -c"})
    return dict(r, verdict="held")


def space_only_rendering(argv):
    return " ".join(("'" + a + "'") if " " in a else a for a in argv)


def arg_class(a):
    out = set()
    if a == "":
        out.add("empty")
    for ch, nm in ((" ", "space"), ("\t", "tab"), ("'", "squote"), ('"', "dquote"), ("\\", "backslash"),
                   ("$", "dollar"), ("*", "star"), (";", "semicolon")):
        if ch in a:
            out.add(nm)
    if any(ord(c) > 127 for c in a):
        out.add("unicode")
    return out or {"plain"}


def case_batch(batch, wctx):
    out = []
    for i in range(batch["lo"], batch["hi"]):
        case = G.gen_case(wctx.rng(f"c24-{i}"), "c24")
        d = wctx.fresh_dir(f"c{i}")
        try:
            out.append(run_one(case, d, i))
        except Exception as e:
            out.append({"verdict": "inconclusive", "case": case, "why": env.short_tb(e)})
        G.clean_case_dir(d)
    return {"multi": out}


def run(ctx):
    quick = ctx.tier == "quick"
    n = G.QUICK_N.get(ctx.prop, 400) if quick else 5000
    per = 20 if quick else 300
    ctx.rule = ("C22-style definitions (1-4 fields) x C23 strings in values, file names and list append_args, plus "
                "'' arguments; cmdline and executed argv taken from the same task instance; non-trivial = the "
                "executed argv has an argument that is empty or has a character outside [A-Za-z0-9_@%+=:,./-]; "
                "distinct = distinct case spec")
    cases = [{"lo": i, "hi": min(n, i + per)} for i in range(0, n, per)]
    ctx.record_all(ctx.pmap("vp.props.c24:case_batch", cases, nproc=G.NPROC, timeout=300 if quick else 2400))
    ctx.assumptions = ["POSIX splitting = shlex.split(posix=True); additionally /bin/sh -c on round-tripping cases",
                       "tasks without output path templates (cmdline is documented as relative to the cwd)"]


def replay(ctx, rep):
    from pathlib import Path
    d = Path(ctx.scratch) / "replay"
    d.mkdir(parents=True, exist_ok=True)
    r = run_one(rep["case"], d, "replay")
    print(env.jdump({k: r.get(k) for k in ("verdict", "mech", "obs", "witness")}, indent=1))
    return 1 if r["verdict"] == "violated" else 0
