"""C21 — accepted lazy connections are honoured at run time.

Monitor: for generated pairs (S, T) of declared types the *static* decision pydra takes when a lazy
output of type S is connected to an input of type T is observed
(`TypeParser(T, superclass_auto_cast=False).check_type(S)`, i.e. acceptance that does not rely on the
permissive super-to-sub-class cast).  For every accepted pair, values generated from S are passed
through the upstream output conversion (`TypeParser(S)(v)`; what a node of output type S really
hands on) and then assigned to a real task field of type T (`Down(x=v')`, the converter
`Submitter._resolve_lazy_inputs` runs when the workflow executes).  A sample of pairs (all candidate
violations first) is additionally executed end to end as an emitted two-node workflow
`Up(x: Any) -> out: S  ==>  Down(x: T)` with the debug worker; the two observations must agree.

Oracle: static accept  =>  every such value is accepted by the T field.
MAY class (set aside by the statement / not a type question):
  * `arity`      the rejection disappears when fixed-length tuples in T are made variadic and the
                 value has another length at such a position ("fixed-length tuple arity aside");
  * `any-source` S mentions Any (says nothing about its values);
  * `path-kind`  a str/Path value reaches a File/Directory target and fileformats rejects the path
                 (missing / wrong kind): a property of the path on disk, not of its type.
Values that pydra's own TypeParser(S) refuses are not "runtime values of type S" (counted).

Known-finding classifiers (by mechanism, on (T, runtime value) only):
  abstract-target-not-instantiable  some position of T declares Sequence[...] and the value there is a
                                    set/frozenset: statically Set->Sequence is coercible, at run time
                                    pydra calls collections.abc.Sequence(items)
  sequence-to-bytes-accepted        some position of T declares bytes and the value there is a
                                    list/tuple/set (Sequence->Sequence covers bytes statically;
                                    bytes(items) fails or joins at run time)
  mapping-meets-iterable-pattern    some position of T declares Iterable[...] (e.g. as an earlier union
                                    alternative) and the value there is a mapping: coerce_mapping unpacks
                                    the single pattern arg as (key, value) -> ValueError escapes coerce_union
  set-rebuilt-with-unhashable-items some position of T declares Iterable[E] with E a list/dict/set-like type and
                                    the value there is a set (e.g. of tuples): the coerced items are put
                                    back into type(value)=set -> unhashable
  multi-input-file-ensure-list      T is exactly MultiInputObj[File] and the value is a tuple/set/
                                    mapping: the extra ensure_list pre-converter wraps it as [value]
"""
from __future__ import annotations

import collections.abc as cabc
import typing as ty

from vp import env
from vp import gen_types as G
from vp import ref_types as R

LEVEL = "exploration"
NVALUES = 5

SRC = '''import typing as ty
from pathlib import Path
from pydra.compose import python, workflow
from pydra.utils.typing import MultiInputObj
from fileformats.generic import File, Directory


@python.define(outputs={{"out": {S}}})
def Up(x: ty.Any):
    return x


@python.define(outputs={{"out": ty.Any}})
def Down(x: {T}):
    return x


@workflow.define(outputs=["out"])
def Wf(v: ty.Any):
    a = workflow.add(Up(x=v), name="a")
    b = workflow.add(Down(x=a.out), name="b")
    return b.out
'''


def ident(x):
    return x


def sys_types(tier):
    if tier == "quick":
        return G.depth1_types(keys=("str",), tuple_elems=("int", "str"), with_any=False)
    return G.depth1_types(keys=("str", "int"), tuple_elems=("int", "str", "float", "Path"), with_any=False)


class Bench:
    def __init__(self, root):
        self.root = root
        self.parsers, self.classes, self.types = {}, {}, {}

    def tp(self, spec):
        k = env.jdump(spec)
        if k not in self.types:
            self.types[k] = G.to_type(spec)
        return self.types[k]

    def static(self, S, T):
        from pydra.utils.typing import TypeParser
        k = env.jdump(T)
        if k not in self.parsers:
            self.parsers[k] = TypeParser(self.tp(T), superclass_auto_cast=False)
        try:
            self.parsers[k].check_type(self.tp(S))
            return True, None
        except TypeError:
            return False, None
        except Exception as e:  # not a decision: pydra's checker crashed
            return False, type(e).__name__ + ": " + str(e)[:120]

    def upstream(self, S):
        from pydra.utils.typing import TypeParser
        return TypeParser(self.tp(S), superclass_auto_cast=True)

    def cls(self, T):
        k = env.jdump(T)
        if k not in self.classes:
            from pydra.compose import python
            self.classes[k] = python.define(ident, inputs={"x": self.tp(T)}, outputs={"out": ty.Any})
        return self.classes[k]


def positions(T, v):
    """(declared sub-type, runtime sub-value) at every aligned position; union alternatives are all
    explored (the classifier only asks whether *some* position shows a known mechanism)."""
    yield T, v
    if isinstance(T, str):
        return
    c, a = T[0], T[1:]
    if c in ("opt", "union"):
        for x in a:
            yield from positions(x, v)
        return
    if c in ("dict", "Mapping"):
        if isinstance(v, cabc.Mapping):
            for k, x in v.items():
                yield from positions(a[0], k)
                yield from positions(a[1], x)
        return
    if c == "MIO":
        yield from positions(a[0], v)
        if isinstance(v, cabc.Mapping):  # coerce_multi_input iterates a mapping's keys
            for k in v:
                yield from positions(a[0], k)
    if isinstance(v, (list, tuple, set, frozenset)):
        if c == "tuple":
            if len(a) == len(v) and isinstance(v, (list, tuple)):
                for t, x in zip(a, v):
                    yield from positions(t, x)
            elif len(a) == len(v):  # a set: iteration order is arbitrary, explore every pairing
                for t in a:
                    for x in v:
                        yield from positions(t, x)
        else:
            for x in v:
                yield from positions(a[0], x)


UNHASHABLE_HEADS = ("list", "set", "dict", "MIO", "Mapping", "Sequence", "Iterable")   # abstract sequence targets are instantiated as lists


def classify(T, v, exc=None):
    if T == ["MIO", "File"] and isinstance(v, (tuple, set, frozenset, cabc.Mapping)):
        return "multi-input-file-ensure-list"
    mechs = set()
    specs = [T] + ([R.relax_arity(T)] if R.arity_positions(v, T) else [])
    for spec in specs:
        for t, x in positions(spec, v):
            if t == "bytes" and isinstance(x, (list, tuple, set, frozenset, range)):
                mechs.add("sequence-to-bytes-accepted")
            if isinstance(t, str):
                continue
            if t[0] == "Sequence" and isinstance(x, cabc.Set) and not isinstance(x, cabc.Sequence):
                mechs.add("abstract-target-not-instantiable")
            if t[0] == "Iterable" and isinstance(x, cabc.Mapping):
                mechs.add("mapping-meets-iterable-pattern")
            if t[0] == "Iterable" and isinstance(x, (set, frozenset)) and x and G.contains(t[1], UNHASHABLE_HEADS):
                mechs.add("set-rebuilt-with-unhashable-items")
    if isinstance(exc, ValueError) and "mapping-meets-iterable-pattern" in mechs:
        return "mapping-meets-iterable-pattern"  # the unpacking error is specific to that mechanism
    # a set whose items become unhashable once coerced fails whatever else is true of the pair
    if "set-rebuilt-with-unhashable-items" in mechs:
        return "set-rebuilt-with-unhashable-items"
    return sorted(mechs)[0] if mechs else None


def field_accepts(bench, T, v):
    try:
        t = bench.cls(T)(x=v)
        return True, t.x, None
    except Exception as e:
        return False, None, e


def may_reason(bench, S, T, v, exc, term=None, up=None):
    if G.contains(S, ("Any",)):
        return "any-source"
    if R.arity_positions(v, T) > 0:
        ok, _, _ = field_accepts(bench, R.relax_arity(T), v)
        if ok:
            return "arity"
    if G.contains(T, ("File", "Directory")):
        if term is not None and up is not None:  # would the same value with the other kind of path be accepted?
            try:
                if field_accepts(bench, T, up(G.build_value(G.swap_path_kind(term), bench.root)))[0]:
                    return "path-kind"
            except Exception:
                pass
        from fileformats.core.exceptions import FileFormatsError
        chain, e = [], exc
        while e is not None:
            chain.append(e)
            e = e.__cause__ or e.__context__
        if any(isinstance(x, (FileNotFoundError, FileFormatsError)) for x in chain):
            return "path-kind"
    return None


def end_to_end(S, T, v, workdir):
    """Run the emitted two-node workflow. -> ("ok", out) | ("build-rejected"|"runtime-rejected"|
    "upstream-rejected"|"other-error", message)"""
    from pydra.engine.workflow import Workflow
    Workflow.clear_cache()
    src = SRC.format(S=G.type_src(S), T=G.type_src(T))
    path = workdir / "wf_case.py"
    path.write_text(src)
    ns = {"__name__": "c21case_" + env.sig_of([S, T])}
    exec(compile(src, str(path), "exec"), ns)  # noqa: S102 - source emitted above
    try:
        wf = ns["Wf"](v=v)
        out = wf(cache_root=workdir / "cache", worker="debug")
        return "ok", repr(out.out)[:160]
    except Exception as e:
        import traceback
        msgs, x = [], e
        while x is not None:
            msgs.append(str(x))
            x = x.__cause__ or x.__context__
        txt = "\n".join(msgs)
        tb = "".join(traceback.format_exception(e))
        if "Incorrect type for lazy field" in txt:
            return "build-rejected", txt[:300]
        if "'x' field of Down" in txt or ("_resolve_lazy_inputs" in tb and "pydra/utils/typing.py" in tb):
            return "runtime-rejected", (type(e).__name__ + ": " + txt)[:300]
        if "Up" in txt and "out" in txt and ("Incorrect type" in txt or "cannot be coerced" in txt):
            return "upstream-rejected", txt[:300]
        return "other-error", type(e).__name__ + ": " + txt[:300]
    finally:
        Workflow.clear_cache()


def evaluate(bench, S, T, rng, e2e_dir=None, force_e2e=False):
    res = {"case": {"S": S, "T": T}, "sig": env.sig_of([S, T]), "counters": {"pairs": 1}, "distinct": {},
           "nontrivial": False, "verdict": "held"}
    ok, crash = bench.static(S, T)
    obs = {"S": G.type_src(S), "T": G.type_src(T), "static": ok}
    res["obs"] = obs
    if crash:
        res["counters"]["static_checker_crashed"] = 1
        res["distinct"]["static_crash"] = [crash]
    if not ok:
        res["counters"]["static_rejected"] = 1
        return res
    res["counters"]["static_accepted"] = 1
    up = bench.upstream(S)
    pk = G.path_kind_for(T)
    fs_target = G.contains(T, ("File", "Directory"))
    bad, mays, tested, last_val = [], [], 0, None
    seen = set()
    for _ in range(NVALUES * 2):
        if tested >= NVALUES:
            break
        term = G.gen_member(rng, S, pk, str_paths=fs_target)
        key = env.jdump(term)
        if key in seen:
            continue
        seen.add(key)
        try:
            v = up(G.build_value(term, bench.root))
        except Exception:
            res["counters"]["value_refused_by_upstream_type"] = res["counters"].get(
                "value_refused_by_upstream_type", 0) + 1
            continue
        tested += 1
        acc, stored, exc = field_accepts(bench, T, v)
        res["counters"]["runtime_values"] = res["counters"].get("runtime_values", 0) + 1
        if acc:
            last_val = term
            continue
        why = may_reason(bench, S, T, v, exc, term, up)
        if why:
            mays.append(why)
        else:
            bad.append({"value": term, "value_repr": repr(v)[:160], "exc": type(exc).__name__,
                        "msg": str(exc)[:240], "mech": classify(T, v, exc)})
    obs["values_tested"] = tested
    res["nontrivial"] = bool(tested and S != T)
    if e2e_dir is not None and tested and (bad or force_e2e) and (bad or last_val is not None):
        term = bad[0]["value"] if bad else last_val
        kind, msg = end_to_end(S, T, G.build_value(term, bench.root), e2e_dir)
        res["counters"]["end_to_end_runs"] = 1
        res["distinct"]["e2e_outcome"] = [kind]
        obs["e2e"] = [kind, msg]
        expect = "runtime-rejected" if bad else "ok"
        if kind == "other-error":  # e.g. pydra's hasher cannot sort a mixed-type set: monitor point not reached
            res["counters"]["end_to_end_failed_elsewhere"] = 1
        elif kind != expect:
            if not bad and kind == "runtime-rejected":
                bad.append({"value": term, "exc": "end-to-end", "msg": msg, "mech": None})
            else:
                return {"verdict": "inconclusive", "case": res["case"],
                        "why": f"in-process and end-to-end observation disagree: expected {expect}, got {kind}: {msg}"}
    if bad:
        res["verdict"] = "violated"
        mechs = {b["mech"] for b in bad}
        res["mech"] = None if None in mechs else sorted(mechs)[0]  # several known mechanisms: report the first
        res["witness"] = {"S": obs["S"], "T": obs["T"], "static": "accepted", "rejected_values": bad[:3],
                          "e2e": obs.get("e2e")}
    elif mays:
        res["verdict"] = "may"
        for m in set(mays):
            res["counters"]["may_" + m] = 1
    return res


def gen_pair(rng, max_depth):
    S = G.gen_type(rng, rng.choice(range(1, max_depth + 1)), allow_any=rng.random() < 0.05)
    if S in ("None", "Any"):
        S = "int"
    r = rng.random()
    if r < 0.75:
        T = G.mutate_type(rng, S)
        if rng.random() < 0.3:
            T = G.mutate_type(rng, T)
    elif r < 0.85:
        T = S
    else:
        T = G.gen_type(rng, rng.choice(range(1, max_depth + 1)), allow_any=False)
    if T == "None":
        T = ["opt", "int"]
    return S, T


def batch(case, wctx):
    from pydra.engine.workflow import Workflow  # noqa: F401
    root = G.make_root(wctx.fresh_dir("files"))
    bench = Bench(root)
    out = []
    if case["kind"] == "systematic":
        types = sys_types(wctx.tier)
        pairs = [(S, T) for S in types[case["lo"]:case["hi"]] for T in types]
        rng = wctx.rng(f"sys{case['lo']}")
    else:
        rng = wctx.rng(f"rand{case['idx']}")
        pairs = [gen_pair(rng, case["max_depth"]) for _ in range(case["n"])]
    budget = case["e2e"]
    for S, T in pairs:
        try:
            d = wctx.fresh_dir("e2e") if budget > 0 else None
            r = evaluate(bench, S, T, rng, d, force_e2e=budget > 0 and rng.random() < case["e2e_p"])
        except Exception as e:
            r = {"verdict": "inconclusive", "case": {"S": S, "T": T}, "why": "harness exception: " + env.short_tb(e)}
        if r.get("counters", {}).get("end_to_end_runs"):
            budget -= 1
        out.append(r)
    return {"multi": out}


def run(ctx):
    quick = ctx.tier == "quick"
    n = len(sys_types(ctx.tier))
    ctx.rule = (f"pairs (S, T): (a) all {n}x{n} pairs of the depth<=1 types of the grammar, (b) random S of depth<=3 "
                "with T a mutation of S (other container / wider scalar / optional / wrapped / other arity) or "
                f"independent; {NVALUES} values per statically accepted pair, a sample run end to end as a 2-node "
                "workflow; non-trivial = statically accepted pair with S != T and >=1 runtime value; "
                "distinct = distinct (S, T)")
    step = 8 if quick else 4
    cases = [{"kind": "systematic", "lo": i, "hi": min(n, i + step), "e2e": 4 if quick else 10, "e2e_p": 0.01}
             for i in range(0, n, step)]
    for i in range(16 if quick else 240):
        cases.append({"kind": "random", "idx": i, "n": 150 if quick else 250, "max_depth": 3,
                      "e2e": 5 if quick else 12, "e2e_p": 0.05})
    ctx.record_all(ctx.pmap("vp.props.c21:batch", cases, nproc=8 if quick else 16, env={"PYTHONHASHSEED": "0"},
                            timeout=400 if quick else 3000))
    ctx.extra["systematic_depth1_types"] = n
    ctx.extra["systematic_pairs_enumerated_completely"] = n * n
    ctx.assumptions = [
        "static acceptance is read from TypeParser(T, superclass_auto_cast=False).check_type(S): the decision the "
        "field converter takes for a lazy field before falling back to permissive super-to-sub-class casting",
        "runtime values of type S are canonical members of S after the upstream output conversion TypeParser(S); "
        "str/Path values point to an existing file (directory when T only mentions Directory)"]


def replay(ctx, rep):
    import shutil
    import tempfile
    from pathlib import Path
    d = Path(tempfile.mkdtemp(prefix="c21-replay-", dir="/dev/shm"))
    bench = Bench(G.make_root(d / "files"))
    (d / "e2e").mkdir()
    r = evaluate(bench, rep["case"]["S"], rep["case"]["T"], ctx.rng("replay"), d / "e2e", force_e2e=True)
    print(env.jdump({k: r.get(k) for k in ("verdict", "mech", "obs", "witness", "why")}, indent=1))
    shutil.rmtree(d, ignore_errors=True)
    return 1 if r["verdict"] == "violated" else 0
