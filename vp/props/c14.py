"""C14 — a failing job never stops independent jobs (asynchronous workers).

Workload: gated workflows of 2-6 nodes (some split) in which a chosen subset of jobs fails, run
through the real async loop + process pool under controller-chosen completion orders
(vp.gated), explicitly including orders in which another job completes while the failing job is
still executing (the running -> errored transition).
Oracle (from the statement, over the event log):
  MUST-run  = every job of a node none of whose ancestor nodes contains a failed job,
  MUST-NOT  = every job that consumes (transitively) the output of a failed job,
  MAY       = other jobs of nodes downstream of a partially failed node (pydra blocks per node),
  the submission must fail and its error text must name every failed job.
"""
from __future__ import annotations

import json

from vp import env, ref_wf
from vp.props import c03

LEVEL = "exploration"


def family(rng):
    k = rng.choice(["witness", "split_fail", "split_two_fail", "diamond", "random", "random", "two_fail", "two_fail"])
    G = True
    if k == "witness":
        nodes = [{"name": "X", "gate": G, "fail": True, "inputs": {"a": ["lit", "x"]}},
                 {"name": "Y", "gate": G, "inputs": {"a": ["lit", "y"]}},
                 {"name": "Z", "gate": G, "inputs": {"a": ["node", "Y"]}},
                 {"name": "W", "gate": G, "inputs": {"a": ["node", "Z"]}}]
    elif k == "split_fail":
        n = rng.randint(2, 4)
        toks = [f"s{i}" for i in range(n)]
        nodes = [{"name": "S", "gate": G, "failtok": rng.choice(toks), "inputs": {},
                  "split": {"form": "a", "vals": {"a": ["lit", toks]}}},
                 {"name": "D", "gate": G, "inputs": {"a": ["node", "S"]}},
                 {"name": "I", "gate": G, "inputs": {"a": ["lit", "i"]}},
                 {"name": "J", "gate": G, "inputs": {"a": ["node", "I"]}}]
    elif k == "split_two_fail":
        n = rng.randint(3, 4)
        toks = [f"s{i}" for i in range(n)]
        nodes = [{"name": "S", "gate": G, "failtok": ",".join(rng.sample(toks, 2)), "inputs": {},
                  "split": {"form": "a", "vals": {"a": ["lit", toks]}}},
                 {"name": "I", "gate": G, "inputs": {"a": ["lit", "i"]}},
                 {"name": "J", "gate": G, "inputs": {"a": ["node", "I"]}}]
    elif k == "diamond":
        nodes = [{"name": "A", "gate": G, "inputs": {"a": ["lit", "r"]}},
                 {"name": "B", "gate": G, "fail": True, "inputs": {"a": ["node", "A"]}},
                 {"name": "C", "gate": G, "inputs": {"a": ["node", "A"]}},
                 {"name": "D", "gate": G, "inputs": {"a": ["node", "B"], "b": ["node", "C"]}},
                 {"name": "E", "gate": G, "inputs": {"a": ["node", "C"]}}]
    elif k == "two_fail":
        nodes = [{"name": "P", "gate": G, "fail": True, "inputs": {"a": ["lit", "p"]}},
                 {"name": "Q", "gate": G, "fail": True, "inputs": {"a": ["lit", "q"]}},
                 {"name": "R", "gate": G, "inputs": {"a": ["lit", "r"]}},
                 {"name": "S", "gate": G, "inputs": {"a": ["node", "R"]}},
                 {"name": "T", "gate": G, "inputs": {"a": ["node", "P"], "b": ["node", "S"]}}]
    else:
        while True:
            spec = c03.gen_spec(rng, nmax=rng.choice([3, 4, 5]), p_comb=0.15)
            res = ref_wf.evaluate(spec)
            if not ref_wf.shared_origin_nodes(spec, res) and sum(len(r.jobs) for r in res.values()) <= 10:
                break
        nodes = spec["nodes"]
        for nd in nodes:
            nd["gate"] = True
        cands = rng.sample(nodes, rng.randint(1, min(2, len(nodes))))
        for nd in cands:
            if nd.get("split") and rng.random() < 0.6:
                f = sorted(nd["split"]["vals"])[0]
                nd["failtok"] = rng.choice(nd["split"]["vals"][f][1])
            else:
                nd["fail"] = True
    return {"nodes": nodes, "out": [nodes[-1]["name"]]}, k


def classify_jobs(spec):
    res = ref_wf.evaluate(spec)
    byname = {nd["name"]: nd for nd in spec["nodes"]}
    jobs = []   # (node, term)
    failed = []
    for nm, r in res.items():
        nd = byname[nm]
        for _, term in r.jobs:
            toks = [t for t in (nd.get("failtok") or "").split(",") if t]
            is_failed = bool(nd.get("fail")) or any(f"={tok}," in term or f"={tok})" in term for tok in toks)
            jobs.append((nm, term))
            if is_failed:
                failed.append((nm, term))
    # ancestors
    anc = {nd["name"]: set() for nd in spec["nodes"]}
    for nd in spec["nodes"]:
        for r in nd.get("inputs", {}).values():
            if r[0] == "node":
                anc[nd["name"]] |= {r[1]} | anc[r[1]]
    failed_nodes = {n for n, _ in failed}
    must, mustnot, may = [], [], []
    for nm, term in jobs:
        consumes = any(ft != term and ft in term for _, ft in failed)
        if consumes:
            mustnot.append(term)
        elif not (anc[nm] & failed_nodes):
            must.append(term)
        else:
            may.append(term)
    return must, mustnot, may, failed


def decide(case, wctx):
    from vp import gated
    from vp.gen_wf import GenWF
    from pydra.engine.workflow import Workflow
    Workflow.clear_cache()
    spec = case["spec"]
    must, mustnot, may, failed = classify_jobs(spec)
    failed_terms = {t for _, t in failed}
    rng = wctx.rng("order" + env.sig_of(case))
    pol = case.get("policy", "random")

    def chooser(held, ev):
        nf = [t for t in held if t not in failed_terms]
        fl = [t for t in held if t in failed_terms]
        if pol == "fail_last" and nf:
            return rng.choice(nf)        # other jobs complete while the failing one is still running
        if pol == "fail_first" and fl:
            return rng.choice(fl)
        if pol == "fail_batch" and len(fl) >= 2:
            return fl                    # all held failing jobs complete in one wake-up of the loop
        if pol == "fail_batch" and fl and nf:
            return rng.choice(nf)        # let the other failing jobs get launched first
        return rng.choice(held)
    g = gated.run_gated(GenWF(spec=json.dumps(spec, sort_keys=True)), wctx, chooser, n_procs=8)
    ev = g["events"]
    starts = [e["term"] for e in ev if e["ev"] == "start"]
    ends = {e["term"] for e in ev if e["ev"] == "end"}
    fails = {e["term"] for e in ev if e["ev"] == "fail"}
    text = ""
    if g["exc"] is not None:
        text = str(g["exc"]) + "\n".join(getattr(g["exc"], "__notes__", []) or [])
    # did some non-failing job complete while a failing job was held (observed running)?
    running_then_errored = False
    open_failing = set()
    for e in ev:
        if e["ev"] == "start" and e["term"] in failed_terms:
            open_failing.add(e["term"])
        elif e["ev"] == "fail":
            open_failing.discard(e["term"])
        elif e["ev"] == "end" and open_failing:
            running_then_errored = True
    r = {"case": case, "sig": env.sig_of(case),
         "counters": {"events": len(ev), "body_starts": len(starts), "failed_jobs_observed": len(fails),
                      "orders_with_running_then_errored": int(running_then_errored),
                      "batched_failure_completions": g["stats"].get("batches", 0)},
         "distinct": {"release_orders": [env.sig_of(g["order"])]},
         "nontrivial": len(failed) >= 1 and len(must) >= 2,
         "obs": {"release_order": g["order"][:12], "must_run": len(must), "must_not": len(mustnot), "may": len(may),
                 "started": len(starts), "error": text[:300]}}
    if g["timed_out"]:
        return {**r, "verdict": "inconclusive", "why": "wall-clock watchdog fired"}
    problems = []
    missing = [t for t in must if t not in failed_terms and t not in ends] + \
              [t for t in must if t in failed_terms and t not in fails]
    if missing:
        problems.append({"why": "jobs independent of every failed job were not executed", "missing": missing[:8]})
    ran_bad = [t for t in starts if t in set(mustnot)]
    if ran_bad:
        problems.append({"why": "a job consuming a failed job's output was executed", "jobs": ran_bad[:8]})
    if g["exc"] is None:
        problems.append({"why": "workflow with failed jobs did not fail"})
    else:
        byname = {nd["name"]: nd for nd in spec["nodes"]}

        def named(n, t):
            if not (f"'{n}'" in text or f"'{n}(" in text or f"tag='{n}'" in text):
                return False
            toks = [x for x in (byname[n].get("failtok") or "").split(",") if x and (f"={x}," in t or f"={x})" in t)]
            # a failing element of a split node is identified by its own input value in the error text
            return all(f"'{x}'" in text for x in toks)
        unnamed = [(n, t) for n, t in failed if t in fails and not named(n, t)]
        if unnamed:
            problems.append({"why": "error does not name every failed job", "unnamed": unnamed[:6], "error": text[:600]})
    if not problems:
        r["verdict"] = "held"
        return r
    r["verdict"] = "violated"
    r["witness"] = {"problems": problems, "release_order": g["order"], "failed_jobs": sorted(failed_terms)[:8],
                    "error": text[:500], "running_then_errored": running_then_errored}
    # mechanism: the schedule let another job complete while the failing job was executing, and the
    # submission then ended with MUST-run jobs never started (event loop aborted)
    only_missing = all(p["why"].startswith("jobs independent") or p["why"].startswith("error does not name")
                       for p in problems)
    unstarted = [t for t in must if t not in starts]
    drained = [t for t in starts if t not in g["order"]]   # still held when the submission returned
    if running_then_errored and only_missing and (unstarted or drained) and g["exc"] is not None:
        r["mech"] = "running-then-errored-aborts-loop"
    return r


def case_one(case, wctx):
    return decide(case, wctx)


def run(ctx):
    quick = ctx.tier == "quick"
    rng = ctx.rng("gen")
    cases = []
    for i in range(30 if quick else 160):
        spec, fam = family(rng)
        cases.append({"spec": spec, "family": fam, "policy": rng.choice(["random", "fail_last", "fail_last", "fail_first", "fail_batch", "fail_batch"])})
    ctx.rule = ("gated workflows (4 hand-written families + random C03 graphs without shared-origin fan-in, <=10 jobs) with 1-2 "
                "failing nodes/jobs x release policy (random / failing job released last / first); non-trivial = >=1 failed "
                "job and >=2 MUST-run jobs; distinct = distinct (spec, policy)")
    ctx.record_all(ctx.pmap("vp.props.c14:case_one", cases, nproc=4 if quick else 5, timeout=1500 if quick else 3400))
    ctx.assumptions = ["pool has at least as many processes as simultaneously runnable jobs (n_procs=8, <=10 jobs)"]


def replay(ctx, rep):
    from vp.worker import WCtx
    r = decide(rep["case"], WCtx(ctx.scratch, ctx.seed, ctx.prop, ctx.tier))
    print(env.jdump(r, indent=1))
    return 1 if r["verdict"] == "violated" else 0
