"""C05 — equivalent splitter spellings agree; ill-formed split/combine is rejected early.

Part A (equivalence): a valid splitter tree and a re-spelling of it (leaf <-> one-element list /
tuple; re-bracketing of chains of the same operator) are both run end to end — as a plain task
and as a workflow node that also inherits an upstream state — and must produce the same body
invocations and the same outputs.  Oracle: equality of the two observations (model-free).
Part B (early rejection): a valid request is perturbed into an ill-formed one (field split
twice, splitter field without value, value without splitter field, combiner field not split,
combine without split, splitter of a wrong type); oracle: an exception is raised and the event
log has zero body starts.
"""
from __future__ import annotations

import copy
import json

from vp import env, evlog, ref_split as R
from vp.props import c01

LEVEL = "exploration"


def respell(rng, t, p_wrap=0.3):
    if isinstance(t, str):
        if rng.random() < p_wrap:
            return {rng.choice("oi"): [t]}
        return t
    op = "o" if "o" in t else "i"
    kids = [respell(rng, x, p_wrap) for x in t[op]]
    # splice children with the same operator (flatten) ...
    out = []
    for k in kids:
        if isinstance(k, dict) and op in k and len(k[op]) >= 2 and rng.random() < 0.5:
            out += k[op]
        else:
            out.append(k)
    # ... or group a run of consecutive children under the same operator (re-bracket)
    if len(out) >= 3 and rng.random() < 0.6:
        i = rng.randint(0, len(out) - 2)
        j = rng.randint(i + 2, len(out))
        if j - i < len(out):
            out = out[:i] + [{op: out[i:j]}] + out[j:]
    return {op: out}


def has_single_wrap(t):
    if isinstance(t, str):
        return False
    kids = t.get("o") or t.get("i")
    return len(kids) == 1 or any(has_single_wrap(k) for k in kids)


def build_task(case, tree):
    """-> pydra task for the request described by case with splitter `tree`"""
    vals = c01.values(case["lens"])
    if case["context"] == "plain":
        from vp.terms import F
        return F(e="k").split(R.to_py(tree), **vals)
    from vp.gen_wf import GenWF
    spec = {"nodes": [{"name": "N0", "inputs": {"e": ["lit", "k"]},
                       "split": {"form": "a", "vals": {"a": ["lit", ["p0", "p1"]]}}},
                      {"name": "N1", "inputs": {"a": ["node", "N0"]},
                       "split": {"form": tree, "vals": {f: ["lit", v] for f, v in vals.items()}}}],
            "out": ["N1"]}
    return GenWF(spec=json.dumps(spec, sort_keys=True))


def observe(case, tree, wctx, builder=None):
    from pydra.engine.submitter import Submitter
    from pydra.engine.workflow import Workflow
    Workflow.clear_cache()
    log = evlog.start(wctx.fresh_dir("log") / "ev.jsonl")
    out = err = None
    try:
        task = builder() if builder else build_task(case, tree)
        with Submitter(worker="debug", cache_root=wctx.fresh_dir("cache")) as sub:
            res = sub(task, raise_errors=True)
        out = res.outputs.out
        out = json.loads(env.jdump(out))
    except Exception as e:
        err = f"{type(e).__name__}: {str(e)[:160]}"
    starts = [e["term"] for e in evlog.read(log) if e["ev"] == "start"]
    return {"out": out, "err": err, "starts": starts}


def decide_equiv(case, wctx):
    a = observe(case, case["tree"], wctx)
    b = observe(case, case["tree2"], wctx)
    r = {"case": case, "sig": env.sig_of(case), "counters": {"equiv_pairs": 1, "body_starts": len(a["starts"]) + len(b["starts"]),
                                                            "ctx_" + case["context"]: 1}}
    r["nontrivial"] = a["err"] is None and len(a["starts"]) >= 2 and R.show(case["tree"]) != R.show(case["tree2"])
    r["obs"] = {"spelling1": R.show(case["tree"]), "spelling2": R.show(case["tree2"]),
                "out1": a["out"] if a["out"] is None else a["out"][:4], "err1": a["err"], "err2": b["err"]}
    same = (a["out"] == b["out"] and a["starts"] == b["starts"] and (a["err"] is None) == (b["err"] is None))
    if same:
        r["verdict"] = "held"
        return r
    r["verdict"] = "violated"
    r["witness"] = {"why": "equivalent spellings disagree", "spelling1": R.show(case["tree"]),
                    "spelling2": R.show(case["tree2"]), "obs1": {k: (v[:8] if isinstance(v, list) else v) for k, v in a.items()},
                    "obs2": {k: (v[:8] if isinstance(v, list) else v) for k, v in b.items()}}
    # mechanism: one spelling has a one-element list/tuple, it fails with the RPN arity assertion
    # (or the derived state error) while the other spelling runs
    bad, good = (b, a) if b["err"] else (a, b)
    bad_tree = case["tree2"] if b["err"] else case["tree"]
    if (bad["err"] and not good["err"] and has_single_wrap(bad_tree) and case["context"] == "wf"
            and bad["err"].startswith("AssertionError") and not bad["starts"]):
        r["mech"] = "single-element-operator-duplicated"
    return r


MALFORMED = ["dup_field", "missing_value", "extra_value", "comb_not_split", "comb_without_split", "bad_type",
             "bad_comb_type"]


def decide_malformed(case, wctx):
    from vp.terms import F
    vals = c01.values(case["lens"])
    tree = R.to_py(case["tree"])
    fields = R.fields_of(tree)
    kind = case["kind"]
    unused = [f for f in c01.FIELDS if f not in fields]

    def builder():
        t = F(e="k")
        if kind == "dup_field":
            return t.split([tree, fields[0]], **vals)
        if kind == "missing_value":
            v = dict(vals)
            v.pop(fields[-1])
            return t.split(tree, **v)
        if kind == "extra_value":
            return t.split(tree, **vals, **{unused[0]: ["u0", "u1"]})
        if kind == "comb_not_split":
            return t.split(tree, **vals).combine(unused[0])
        if kind == "comb_without_split":
            return t.combine(fields[0])
        if kind == "bad_type":
            return t.split(case.get("bad", 5), **vals)
        if kind == "bad_comb_type":
            return t.split(tree, **vals).combine({"x": 1})
        raise env.HarnessError(kind)
    if kind in ("extra_value", "comb_not_split") and not unused:
        return {"verdict": "inconclusive", "case": case, "why": "no unused field"}
    o = observe(case, None, wctx, builder=builder)
    r = {"case": case, "sig": env.sig_of(case), "nontrivial": True,
         "counters": {"malformed_requests": 1, "malformed_" + kind: 1, "body_starts": len(o["starts"])},
         "obs": {"err": o["err"], "starts": len(o["starts"])}}
    if o["err"] is not None and not o["starts"]:
        r["verdict"] = "held"
    else:
        r["verdict"] = "violated"
        r["witness"] = {"why": "ill-formed request not rejected before execution" if o["starts"] else
                        "ill-formed request accepted", "kind": kind, "error": o["err"], "starts": o["starts"][:6],
                        "out": o["out"] if o["out"] is None else str(o["out"])[:200]}
    return r


def decide(case, wctx):
    return decide_equiv(case, wctx) if case["part"] == "equiv" else decide_malformed(case, wctx)


def case_batch(case, wctx):
    return {"multi": [decide(c, wctx) for c in case["cases"]]}


def run(ctx):
    quick = ctx.tier == "quick"
    rng = ctx.rng("gen")
    cases = []
    for i in range(130 if quick else 5000):
        context = "wf" if i % 2 else "plain"
        pool = ["b", "c", "d"] if context == "wf" else c01.FIELDS
        while True:
            k = rng.randint(1, len(pool))
            fs = rng.sample(pool, k)
            tree = c01.gen_tree(rng, fs)
            if c01.rank(tree) is not None:
                break
        lens = {}
        c01.force(tree, tuple(rng.randint(1, 2 if k > 2 else 3) for _ in range(c01.rank(tree))), lens)
        t2 = tree
        for _ in range(6):
            t2 = respell(rng, copy.deepcopy(tree))
            if R.show(t2) != R.show(tree):
                break
        cases.append({"part": "equiv", "context": context, "tree": tree, "tree2": t2, "lens": lens})
    for i in range(56 if quick else 1500):
        k = rng.randint(1, 3)
        fs = rng.sample(c01.FIELDS, k)
        tree = c01.gen_tree(rng, fs)
        lens = {f: rng.randint(1, 2) for f in fs}
        if c01.rank(tree) is not None:
            c01.force(tree, tuple(rng.randint(1, 2) for _ in range(c01.rank(tree))), lens)
        c = {"part": "malformed", "context": "plain", "kind": MALFORMED[i % len(MALFORMED)], "tree": tree, "lens": lens}
        if c["kind"] == "bad_type":
            c["bad"] = rng.choice([5, 2.5, {"a": 1}, True])
        cases.append(c)
    ctx.rule = ("(tree, re-spelled tree) pairs from wrap/unwrap of leaves and re-bracketing of same-operator chains over <=4 "
                "fields, run as plain task and as workflow node with an upstream state; plus 7 kinds of ill-formed "
                "requests; non-trivial = spellings differ textually and >=2 jobs (equiv) / every malformed request; "
                "distinct = distinct case spec")
    ctx.record_all(ctx.pmap("vp.props.c05:case_batch", [{"cases": cases[i:i + 6]} for i in range(0, len(cases), 6)],
                            timeout=900 if quick else 3400))


def replay(ctx, rep):
    from vp.worker import WCtx
    r = decide(rep["case"], WCtx(ctx.scratch, ctx.seed, ctx.prop, ctx.tier))
    print(env.jdump(r, indent=1))
    return 1 if r["verdict"] == "violated" else 0
