"""C31 — requirement (`requires=`) and mutual-exclusion (`xor=`) rules are enforced exactly and
before any execution.

Observed on the real code, for freshly generated python/shell task classes (vp.gen_rules):
 (a) rule gate: for EVERY type-compatible assignment of a definition the real task object is
     constructed and `Task._check_rules()` (the call Job.__init__ and Submitter.__call__ make) is
     run: raises / does not raise;
 (b) end to end: for chosen assignments of each definition (one the reference rejects, one it
     accepts, one random) the task is submitted (`task(cache_root=fresh, worker="debug")`); the
     vp.evlog file records every body / fake-tool invocation, so "rejected before any execution"
     (0 start events) and "accepted tasks really ran" (1 start event) are observed.
Oracle: vp.ref_rules (written from the statement).  MAY class (statement silent): whether 0, "" in an
exclusive group and a False held by a *required* `bool | None` field count as "set" (within the requires
rule 0 and "" are set: they can be allowed values); every such occurrence is read both
ways independently (three-valued evaluation) and an assignment whose outcome depends on a reading is
MAY (counted in may_assignments with what pydra did, never a violation).
"""
from __future__ import annotations

from vp import env, evlog, gen_rules as G, ref_rules as R

LEVEL = "exploration"


def _short(e):
    return f"{type(e).__name__}: {str(e)[:240]}"


def observe_gate(cls, assign):
    """-> (rejected?, error text, stage)"""
    try:
        t = cls(**G.kwargs_of(assign))
    except Exception as e:
        return True, _short(e), "construct"
    try:
        t._check_rules()
    except Exception as e:
        return True, _short(e), "check_rules"
    return False, None, None


def observe_e2e(cls, assign, wctx):
    log = evlog.start(wctx.fresh_dir("log") / "ev.jsonl")
    cache = wctx.fresh_dir("cache")
    err = out = None
    try:
        t = cls(**G.kwargs_of(assign))
        o = t(cache_root=cache, worker="debug")
        out = getattr(o, "out", None) if hasattr(o, "out") else getattr(o, "return_code", None)
    except Exception as e:
        err = _short(e)
    starts = [e for e in evlog.read(log) if e["ev"] == "start"]
    return err, out, len(starts)


def decide_spec(spec, wctx, e2e_n):
    r = {"case": spec, "sig": env.sig_of(spec), "counters": {}, "distinct": {}}
    c = r["counters"]
    try:
        cls = G.build(spec, wctx.fresh_dir("src"))
    except Exception as e:
        # the definition itself was refused: nothing can be executed, nothing to decide
        c["definitions_refused"] = 1
        r.update(verdict="held", nontrivial=False, obs={"definition_refused": _short(e)})
        return r
    want_req = {f["name"]: f["requires"] for f in spec["fields"] if f["requires"]}
    if G.parsed_requires(cls) != want_req or {frozenset(g) for g in spec["xor"]} != set(cls._xor):
        raise env.HarnessError(f"spec not represented as written: {G.parsed_requires(cls)} vs {want_req}")
    c["definitions"] = 1
    rng = wctx.rng(r["sig"])
    assigns = G.assignments(spec)
    bad, n_acc, n_rej, n_may = [], 0, 0, 0
    by_exp = {"accept": [], "reject": []}
    kinds = set()
    for a in assigns:
        exp, vs, vl = R.expect(spec, a)
        rejected, err, stage = observe_gate(cls, a)
        c["gate_checks"] = c.get("gate_checks", 0) + 1
        if exp == "may":
            n_may += 1
            c["may_pydra_" + ("rejects" if rejected else "accepts")] = c.get(
                "may_pydra_" + ("rejects" if rejected else "accepts"), 0) + 1
            continue
        by_exp[exp].append(a)
        for k, _ in vs:
            kinds.add(k)
        if exp == "reject":
            n_rej += 1
            if not rejected:
                bad.append({"why": "rules violated but the task passed the rule gate", "assign": a,
                            "violated_rules": vs})
        else:
            n_acc += 1
            if rejected:
                bad.append({"why": "all rules hold but the task was rejected", "assign": a, "error": err,
                            "stage": stage})
    c["gate_expected_reject"] = n_rej
    c["gate_expected_accept"] = n_acc
    c["may_assignments"] = n_may
    r["distinct"]["violation_kinds"] = sorted(kinds)
    # ---- end to end on chosen assignments
    chosen = []
    for k in ("reject", "accept"):
        if by_exp[k]:
            chosen.append((k, rng.choice(by_exp[k])))
    pool = by_exp["reject"] + by_exp["accept"]
    while pool and len(chosen) < e2e_n:
        a = rng.choice(pool)
        chosen.append((R.expect(spec, a)[0], a))
    for exp, a in chosen[:e2e_n]:
        err, out, starts = observe_e2e(cls, a, wctx)
        c["e2e_runs"] = c.get("e2e_runs", 0) + 1
        c["e2e_body_starts"] = c.get("e2e_body_starts", 0) + starts
        if exp == "reject":
            c["e2e_rejections_seen"] = c.get("e2e_rejections_seen", 0) + (1 if err and not starts else 0)
            if starts:
                bad.append({"why": "a task violating its rules was executed" +
                            (" (error raised only afterwards)" if err else ""), "assign": a, "starts": starts,
                            "error": err, "violated_rules": R.expect(spec, a)[1]})
            elif not err:
                bad.append({"why": "rule-violating submission returned without error", "assign": a})
        else:
            if err or starts != 1:
                bad.append({"why": "valid task was not executed exactly once", "assign": a, "starts": starts,
                            "error": err})
    has_rules = bool(want_req or spec["xor"])
    r["nontrivial"] = bool(has_rules and n_acc and n_rej)
    r["obs"] = {"assignments": len(assigns), "expected_accept": n_acc, "expected_reject": n_rej, "may": n_may,
                "e2e": len(chosen[:e2e_n])}
    if bad:
        r["verdict"] = "violated"
        r["witness"] = {"n_bad": len(bad), "first": bad[:4]}
        r["mech"] = None
    else:
        r["verdict"] = "held"
    return r


def case_batch(case, wctx):
    return {"multi": [decide_spec(s, wctx, case["e2e"]) for s in case["specs"]]}


def run(ctx):
    quick = ctx.tier == "quick"
    rng = ctx.rng("gen")
    n = 200 if quick else 3000
    specs = [G.gen_spec(rng, idx=i) for i in range(n)]
    for s in specs:
        s.pop("outarg", None)
    per = 5 if quick else 40
    cases = [{"specs": specs[i:i + per], "e2e": 3 if quick else 2} for i in range(0, n, per)]
    ctx.rule = ("random definitions (python.define over an emitted body / shell.define over a fake tool) with 2-5 fields "
                "of type bool, str|None, int|None, bool|None, defaults (none=mandatory / falsy / truthy), OR-of-AND "
                "requirement sets with and without allowed values, 0-2 xor groups with/without None; per definition ALL "
                "assignments from {unset,None,False,True,'u','v','',0,1} compatible with the field types go through the "
                "real rule gate and 2-3 go end to end with an event log; non-trivial = definition has rules and both "
                "accepted and rejected assignments; distinct = distinct definitions")
    res = ctx.pmap("vp.props.c31:case_batch", cases, nproc=8 if quick else 16, timeout=300 if quick else 3000)
    ctx.record_all(res)
    ctx.exhaustive = False
    ctx.extra["assignments_exhaustive_per_definition"] = True
    ctx.assumptions = ["requirement specs are given in the canonical nested form [[req,...],...] (OR of AND sets); "
                       "the flat-list shorthand is read by pydra as alternatives and is not exercised",
                       "type-incompatible values are out of scope (type checking is C20)"]


def replay(ctx, rep):
    from vp.worker import WCtx
    r = decide_spec(rep["case"], WCtx(ctx.scratch, ctx.seed, ctx.prop, ctx.tier), 3)
    print(env.jdump(r, indent=1))
    return 1 if r["verdict"] == "violated" else 0
