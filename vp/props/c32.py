"""C32 — task definitions survive the dictionary round trip.

For every generated definition T (vp.gen_rules: python/shell, requirement sets, xor groups, defaults,
allowed_values, help, positions, argstr templates, list separator, outarg path_template) the real
`structure(unstructure(T))` is executed and the re-created class T2 is observed:
  * get_fields(T) == get_fields(T2), get_fields(T.Outputs) == get_fields(T2.Outputs) (pydra's own
    attrs equality: type, default, requires, allowed_values, help, argstr, position, sep, template ...),
    same xor groups, name and task type;
  * for every assignment (all, or a sample of <= 60): both classes accept / reject it alike at
    construction + rule gate;
  * for accepted assignments: equal `cmdline` (shell) and equal outputs of one real run each
    (python: term-valued `out`; shell: stdout of the fake tool = its argv), bodies counted via evlog.
The definition with its `requires` removed is a member of the quantified set too and is checked as
its own case; it also serves as the mechanism classifier: a definition that fails while its
requires-free twin round-trips fails *because of* the requirement sets -> `requires-roundtrip`.
"""
from __future__ import annotations

from vp import env, evlog, gen_rules as G, ref_rules as R

LEVEL = "exploration"


def _short(e):
    return f"{type(e).__name__}: {str(e)[:300]}"


def gate(cls, a):
    try:
        t = cls(**G.kwargs_of(a))
        t._check_rules()
        return None, t
    except Exception as e:
        return type(e).__name__, None


def run_once(t, wctx):
    log = evlog.start(wctx.fresh_dir("log") / "ev.jsonl")
    try:
        o = t(cache_root=wctx.fresh_dir("cache"), worker="debug")
        out = {"out": getattr(o, "out", None), "stdout": getattr(o, "stdout", None),
               "rc": getattr(o, "return_code", None)}
    except Exception as e:
        out = {"error": type(e).__name__}
    return out, sum(1 for e in evlog.read(log) if e["ev"] == "start")


def compare(spec, wctx, e2e_n, counters):
    """-> list of differences (empty = round trip faithful); raises HarnessError if T cannot be built"""
    from pydra.utils.general import get_fields, structure, unstructure
    try:
        T = G.build(spec, wctx.fresh_dir("src"))
    except Exception as e:
        return None, _short(e)
    diffs = []
    try:
        dct = unstructure(T)
    except Exception as e:
        return [{"why": "unstructure raised", "error": _short(e)}], None
    try:
        T2 = structure(dct)
    except Exception as e:
        return [{"why": "structure(unstructure(T)) raised", "error": _short(e)}], None
    counters["roundtrips_completed"] = counters.get("roundtrips_completed", 0) + 1
    f1, f2 = get_fields(T), get_fields(T2)
    n1, n2 = [f.name for f in f1], [f.name for f in f2]
    if n1 != n2:
        diffs.append({"why": "field names differ", "orig": n1, "new": n2})
    for a in f1:
        b = next((x for x in f2 if x.name == a.name), None)
        counters["fields_compared"] = counters.get("fields_compared", 0) + 1
        if b is not None and a != b:
            import attrs
            d = {k.name: [repr(getattr(a, k.name))[:120], repr(getattr(b, k.name))[:120]]
                 for k in attrs.fields(type(a)) if getattr(a, k.name) != getattr(b, k.name)} \
                if type(a) is type(b) else {"class": [type(a).__name__, type(b).__name__]}
            diffs.append({"why": "field differs", "field": a.name, "attrs": d})
    if get_fields(T.Outputs) != get_fields(T2.Outputs):
        diffs.append({"why": "output fields differ", "orig": repr(get_fields(T.Outputs))[:300],
                      "new": repr(get_fields(T2.Outputs))[:300]})
    if T._xor != T2._xor:
        diffs.append({"why": "xor groups differ", "orig": repr(T._xor), "new": repr(T2._xor)})
    if T.__name__ != T2.__name__ or T._task_type() != T2._task_type():
        diffs.append({"why": "name/type differ", "orig": [T.__name__, T._task_type()],
                      "new": [T2.__name__, T2._task_type()]})
    # behaviour on equal inputs
    rng = wctx.rng(env.sig_of(spec))
    assigns = G.assignments(spec, limit=60, rng=rng)
    accepted = []
    for a in assigns:
        g1, t1 = gate(T, a)
        g2, t2 = gate(T2, a)
        counters["gate_pairs"] = counters.get("gate_pairs", 0) + 1
        if g1 != g2:
            if len(diffs) < 6:
                diffs.append({"why": "assignment accepted by one class only", "assign": a, "orig": g1, "new": g2})
        elif g1 is None:
            accepted.append((a, t1, t2))
            if spec["kind"] == "shell":
                counters["cmdlines_compared"] = counters.get("cmdlines_compared", 0) + 1
                try:
                    c1 = t1.cmdline
                except Exception as e:
                    c1 = "raised " + type(e).__name__
                try:
                    c2 = t2.cmdline
                except Exception as e:
                    c2 = "raised " + type(e).__name__
                if c1 != c2 and len(diffs) < 6:
                    diffs.append({"why": "cmdline differs", "assign": a, "orig": c1, "new": c2})
    for a, t1, t2 in (rng.sample(accepted, min(e2e_n, len(accepted))) if accepted else []):
        o1, s1 = run_once(t1, wctx)
        o2, s2 = run_once(t2, wctx)
        counters["run_pairs"] = counters.get("run_pairs", 0) + 1
        counters["body_starts"] = counters.get("body_starts", 0) + s1 + s2
        if o1 != o2 or s1 != s2:
            diffs.append({"why": "outputs of a run differ", "assign": a, "orig": [o1, s1], "new": [o2, s2]})
    return diffs, None


def decide(spec, wctx, e2e_n, twin_of=None):
    r = {"case": spec, "sig": env.sig_of(spec), "counters": {}, "distinct": {}}
    has_req = any(f["requires"] for f in spec["fields"])
    diffs, refused = compare(spec, wctx, e2e_n, r["counters"])
    if diffs is None:
        r["counters"]["definitions_refused"] = 1
        r.update(verdict="held", nontrivial=False, obs={"definition_refused": refused})
        return [r]
    r["counters"]["definitions"] = 1
    r["nontrivial"] = True
    r["distinct"]["kinds"] = [spec["kind"] + ("+requires" if has_req else "") + ("+xor" if spec["xor"] else "")]
    r["obs"] = {"fields": len(spec["fields"]), "has_requires": has_req, "differences": len(diffs)}
    out = [r]
    twin = None
    if has_req:
        twin = decide(G.strip_requires(spec), wctx, 1)[0]
        out.append(twin)
    if diffs:
        r["verdict"] = "violated"
        r["witness"] = {"differences": diffs[:5]}
        # mechanism: fails, the requires-free twin is faithful, and every difference is the round trip raising
        # or concerns a field that carries requirement sets
        req_fields = {f["name"] for f in spec["fields"] if f["requires"]}
        only_req = all(d["why"] in ("structure(unstructure(T)) raised",) or d.get("field") in req_fields
                       or d["why"] == "assignment accepted by one class only" for d in diffs)
        if has_req and twin is not None and twin["verdict"] == "held" and only_req:
            r["mech"] = "requires-roundtrip"
        else:
            r["mech"] = None
    else:
        r["verdict"] = "held"
    return out


def case_batch(case, wctx):
    res = []
    for s in case["specs"]:
        res.extend(decide(s, wctx, case["e2e"]))
    return {"multi": res}


def make_specs(ctx, n):
    rng = ctx.rng("gen")
    specs = []
    for i in range(n):
        s = G.gen_spec(rng, idx=i)
        if rng.random() < 0.25:  # plain definitions without rules too
            s = G.strip_requires(s)
        specs.append(G.add_extras(s, rng))
    return specs


def run(ctx):
    quick = ctx.tier == "quick"
    n = 300 if quick else 4000
    specs = make_specs(ctx, n)
    per = 8 if quick else 50
    cases = [{"specs": specs[i:i + per], "e2e": 1} for i in range(0, n, per)]
    ctx.rule = ("random python/shell definitions from the C31 generator plus allowed_values, help, list field with "
                "separator, positions/argstr templates and an outarg path_template; each definition and its requires-free "
                "twin go through the real unstructure/structure; fields, xor, rule gate on <=60 assignments, cmdline and "
                "the outputs of one run per class are compared; non-trivial = definition accepted by pydra; distinct = "
                "distinct definitions")
    res = ctx.pmap("vp.props.c32:case_batch", cases, nproc=8 if quick else 16, timeout=300 if quick else 3000)
    ctx.record_all(res)
    ctx.assumptions = ["in-memory dictionary form only (no JSON/YAML serialisation of types or callables)"]


def replay(ctx, rep):
    from vp.worker import WCtx
    rs = decide(rep["case"], WCtx(ctx.scratch, ctx.seed, ctx.prop, ctx.tier), 2)
    print(env.jdump(rs, indent=1))
    return 1 if any(r["verdict"] == "violated" for r in rs) else 0
