"""C26 — output path templates resolve inside the job directory.

Workload: shell tasks (executable = vp/fakes/touchfile, which creates every path it is given and logs
its argv) with one `outarg` whose `path_template` is generated: optional directory prefix (`../`, `./`,
`sub/`, `/abs/dir/`), literals, 0-2 `{field}` references (file input with 0-2 extensions, str, int,
float with `:.2f`, list inputs with a MultiOutputFile output), own extension or none; keep_extension
on/off; the outarg left to the template, set True, given explicitly (absolute Path/str, relative), or
(optional type) False/None.  Every case is *run for real* twice, in two fresh cache roots.

Observed: the argv the fake received, `Result.cache_dir`, `outputs.out`, existence of the file.
Oracle, from the statement only:
 inside      - every template-resolved path has parent == cache_root/<checksum> (the job's own directory),
               names a real entry inside it (not `.`/`..`), equals the output value, and exists;
 determinism - the two runs give the same file names;
 extension   - with a file reference: template without own extension => the file's extension is moved to the
               end when keep_extension, dropped otherwise; template with own extension => not added.  "Own
               extension" is a literal '.' in the template's last path component outside `{}`.
 explicit    - an explicitly supplied path is the argv element, verbatim, and the output is that path
               (relative ones resolved against the job directory).
MAY class: which dots of a multi-dot file name (`a.nii.gz`) are "the extension" (either split accepted);
a literal placed before the file reference being swallowed by the file's directory (`out_{f}` -> `x.txt`:
the statement fixes the extension, not the rest of the name); other references whose value contains '/'.
"""
from __future__ import annotations

import os
import re
from pathlib import Path

from vp import env

LEVEL = "exploration"
TOUCH = str(Path(__file__).resolve().parents[1] / "fakes" / "touchfile")

FILE_NAMES = ["x.txt", "data.csv", "scan.nii.gz", "noext", "img_01.png", "a-b.dat", "archive.tar.gz", "Run2.TXT"]
STRS = ["abc", "sub-01", "v2", "a.b", "Name_X", "a/b", "..", ".", "../up", "/abs", "a/.."]  # no blanks/quotes: C23
LITS = ["out", "res_", "_v2", "-final", "pre_", "_", "o", "X1_"]
OWN_EXT = ["", "", ".txt", ".nii.gz", ".out", ".json"]
PREFIX = ["", "", "", "../", "./", "sub/", "/abs/dir/", "../../"]


# ------------------------------------------------------------------------------------------ generate
def gen_case(rng):
    inputs = []
    refs = []
    nref = rng.choice([0, 1, 1, 1, 2, 2])
    multi = False
    kinds = rng.sample(["file", "str", "int", "float", "list"], 3)
    if rng.random() < 0.6 and "file" not in kinds[:nref] and nref:
        kinds[0] = "file"
    for i, k in enumerate(kinds):
        name = ["f", "s", "n"][i] if k != "file" else "in_file"
        name = f"{name}{i}"
        if k == "file":
            d = {"name": name, "kind": "file", "fname": rng.choice(FILE_NAMES)}
        elif k == "str":
            d = {"name": name, "kind": "str", "value": rng.choice(STRS[:5] if rng.random() < 0.7 else STRS)}
        elif k == "int":
            d = {"name": name, "kind": "int", "value": rng.choice([0, 1, 7, 42, -3])}
        elif k == "float":
            d = {"name": name, "kind": "float", "value": rng.choice([0.5, 1.25, 10.0, -2.0, 0.333])}
        else:
            if rng.random() < 0.5:
                d = {"name": name, "kind": "intlist", "value": [rng.randint(0, 9) for _ in range(rng.randint(1, 3))]}
            else:
                d = {"name": name, "kind": "strlist", "value": rng.sample(STRS[:5], rng.randint(1, 3))}
        inputs.append(d)
    used = inputs[:nref]
    parts = []
    if rng.random() < 0.4:
        parts.append(rng.choice(LITS))
    for j, d in enumerate(used):
        parts.append("{" + d["name"] + (":.2f" if d["kind"] == "float" and rng.random() < 0.8 else "") + "}")
        if d["kind"].endswith("list"):
            multi = True
        if rng.random() < 0.6 or j < len(used) - 1:
            parts.append(rng.choice(LITS))
    if not parts:
        parts.append(rng.choice(LITS))
    template = rng.choice(PREFIX) + "".join(parts) + rng.choice(OWN_EXT)
    r = rng.random()
    optional = False
    if r < 0.55:
        out_value = "default"
    elif r < 0.65:
        out_value = "true"
    elif r < 0.75:
        out_value = {"abs_path": rng.choice(["given.txt", "g.nii.gz", "plain"])}
    elif r < 0.82:
        out_value = {"abs_str": rng.choice(["given.txt", "g2.dat"])}
    elif r < 0.89:
        out_value = {"rel": rng.choice(["rel.txt", "r2"]), "as": rng.choice(["str", "path"])}
    else:
        optional = True
        out_value = rng.choice(["false", "none", "true", "default"])
    if multi and isinstance(out_value, dict):
        out_value = "default"
    return {"inputs": inputs, "template": template, "keep_extension": rng.random() < 0.6, "multi": multi,
            "optional": optional and not multi, "out_value": out_value, "flag": rng.choice(["", "", "-o"])}


# ------------------------------------------------------------------------------------------ reference
def split_ext_candidates(fname):
    """(stem, ext) readings of a file name; more than one when the name has several dots"""
    if "." not in fname.strip("."):
        return [(fname, "")]
    first = fname.index(".", 1)
    last = fname.rindex(".")
    cands = [(fname[:first], fname[first:])]
    if last != first:
        cands.append((fname[:last], fname[last:]))
    return cands


def expected_names(case):
    """None when the extension rule does not apply; else {"strict": set, "pathsem": set} of acceptable names
    (one list per output element)"""
    t = case["template"]
    base = t.rsplit("/", 1)[-1]
    used = [d for d in case["inputs"] if "{" + d["name"] in base]
    files = [d for d in used if d["kind"] == "file"]
    if len(files) != 1:
        return None
    if any(d["kind"] in ("str", "strlist") and any("/" in v for v in ([d["value"]] if d["kind"] == "str" else d["value"]))
           for d in used):
        return None
    f = files[0]
    own_ext = "." in re.sub(r"{[^}]*}", "", base)
    lists = [d for d in used if d["kind"].endswith("list")]
    n = len(lists[0]["value"]) if lists else 1
    if any(len(d["value"]) != n for d in lists):
        return None
    out = []
    for i in range(n):
        strict, pathsem = set(), set()
        for stem, ext in split_ext_candidates(f["fname"]):
            vals = {d["name"]: (d["value"][i] if d["kind"].endswith("list") else d["value"]) for d in used if d is not f}
            tail = ext if (not own_ext and case["keep_extension"]) else ""
            strict.add(base.format(**vals, **{f["name"]: stem}) + tail)
            pathsem.add(base.format(**vals, **{f["name"]: "\0/" + stem}).rsplit("/", 1)[-1] + tail)
        out.append({"strict": strict, "pathsem": pathsem - strict})
    return out


# ------------------------------------------------------------------------------------------ run
def build(case, indir: Path, exdir: Path):
    from pydra.compose import shell
    from fileformats.generic import File
    from pydra.utils.typing import MultiOutputFile, MultiInputObj
    ins, vals = {}, {}
    for d in case["inputs"]:
        if d["kind"] == "file":
            p = indir / d["fname"]
            p.write_text("content of " + d["fname"])
            ins[d["name"]] = shell.arg(type=File, argstr=None)
            vals[d["name"]] = p
        elif d["kind"] in ("intlist", "strlist"):
            ins[d["name"]] = shell.arg(type=MultiInputObj[int if d["kind"] == "intlist" else str], argstr=None)
            vals[d["name"]] = list(d["value"])
        else:
            ins[d["name"]] = shell.arg(type={"str": str, "int": int, "float": float}[d["kind"]], argstr=None)
            vals[d["name"]] = d["value"]
    otype = MultiOutputFile if case["multi"] else (File | None if case["optional"] else File)
    T = shell.define(TOUCH, inputs=ins, name="T26", outputs={
        "out": shell.outarg(type=otype, path_template=case["template"], keep_extension=case["keep_extension"],
                            argstr=case["flag"], position=1)})
    ov = case["out_value"]
    given = None
    if ov == "true":
        vals["out"] = True
    elif ov == "false":
        vals["out"] = False
    elif ov == "none":
        vals["out"] = None
    elif isinstance(ov, dict):
        if "abs_path" in ov:
            given = vals["out"] = exdir / ov["abs_path"]
        elif "abs_str" in ov:
            given = vals["out"] = str(exdir / ov["abs_str"])
        else:
            given = vals["out"] = ov["rel"] if ov["as"] == "str" else Path(ov["rel"])
    return T, vals, given


def run_once(case, wctx, tag):
    from pydra.engine.submitter import Submitter
    indir, exdir, cache = wctx.fresh_dir("in" + tag), wctx.fresh_dir("ex" + tag), wctx.fresh_dir("cache" + tag)
    log = wctx.fresh_dir("log" + tag) / "argv"
    T, vals, given = build(case, indir, exdir)
    os.environ["VP_TOUCH_LOG"] = str(log)
    o = {"cache": str(cache), "given": None if given is None else str(given), "error": None}
    try:
        with Submitter(worker="debug", cache_root=cache) as sub:
            res = sub(T(**vals), raise_errors=True)
        o["jobdir"] = str(res.cache_dir)
        out = res.outputs.out
        outs = [] if out is None else ([str(x) for x in out] if isinstance(out, (list, tuple)) else [str(out)])
        o["outputs"] = outs
    except Exception as e:
        o["error"] = f"{type(e).__name__}: {str(e).splitlines()[0][:300] if str(e) else ''}"
        dirs = [d for d in cache.iterdir() if d.is_dir()]
        o["jobdir"] = str(dirs[0]) if len(dirs) == 1 else None
        o["outputs"] = None
    finally:
        os.environ.pop("VP_TOUCH_LOG", None)
    if log.exists():
        recs = [r for r in log.read_bytes().split(b"\0\n") if r]
        o["calls"] = len(recs)
        o["argv"] = [a.decode() for a in recs[-1].split(b"\0")][1:] if recs else None
    else:
        o["calls"], o["argv"] = 0, None
    return o


# ------------------------------------------------------------------------------------------ decide
def classify(case, kind, detail):
    """mechanism of a violation (by what the template / values contain)"""
    t = case["template"]
    base = t.rsplit("/", 1)[-1]
    if kind == "extension":
        # keep_extension is on, the last component has no own extension, yet the raw template string contains a
        # '.' elsewhere (directory prefix or a {x:.2f} format spec) and the file's extension was dropped
        own = "." in re.sub(r"{[^}]*}", "", base)
        if case["keep_extension"] and not own and "." in t and detail.get("dropped"):
            return "dot-elsewhere-drops-extension"
    if kind == "inside":
        # the formatted template ends in a '.' or '..' component: the path denotes the job dir itself / its parent
        if detail.get("formatted_last") in (".", "..", ""):
            return "dot-component-name"
    return None


def decide(case, wctx):
    r = {"case": case, "sig": env.sig_of(case), "counters": {}, "distinct": {}}
    a = run_once(case, wctx, "A")
    b = run_once(case, wctx, "B")
    ov = case["out_value"]
    explicit = isinstance(ov, dict)
    off = ov in ("false", "none") or (case["optional"] and ov == "default")
    r["counters"]["runs"] = 2
    r["counters"]["touchfile_calls"] = a["calls"] + b["calls"]
    r["nontrivial"] = not off
    r["distinct"]["template_shapes"] = [re.sub(r"[A-Za-z0-9_\-]+", "w", case["template"])]
    obs = {"A": {k: a[k] for k in ("argv", "outputs", "jobdir", "error")}, "B_argv": b["argv"]}

    def viol(kind, detail, what):
        if kind == "inside":
            try:
                scal = {d["name"]: d["value"] for d in case["inputs"] if d["kind"] in ("str", "int", "float")}
                detail["formatted_last"] = case["template"].format(**scal).rsplit("/", 1)[-1]
            except Exception:
                detail["formatted_last"] = None
        r.update(verdict="violated", mech=classify(case, kind, detail),
                 witness={"what": what, "kind": kind, "detail": detail, "template": case["template"],
                          "keep_extension": case["keep_extension"], "inputs": case["inputs"], "out_value": ov,
                          "runA": obs["A"], "runB_argv": b["argv"]})
        return r

    if a["calls"] != 1 or b["calls"] != 1 or a["argv"] is None:
        if a["error"] and a["calls"] == 0:
            # the run refused before executing anything: nothing resolved, nothing to judge
            r.update(verdict="may", obs=obs, nontrivial=False)
            r["counters"]["refused_before_execute"] = 1
            return r
        r.update(verdict="inconclusive", why=f"fake tool calls: {a['calls']}/{b['calls']}")
        return r
    paths_a = [x for x in a["argv"] if x != case["flag"] or not case["flag"]]
    paths_b = [x for x in b["argv"] if x != case["flag"] or not case["flag"]]
    r["counters"]["paths_observed"] = len(paths_a) + len(paths_b)
    if off:
        if paths_a:
            return viol("off", {"argv": a["argv"]}, "outarg switched off but a path was passed")
        r.update(verdict="held", obs=obs)
        return r
    if explicit:
        r["counters"]["explicit_checked"] = 1
        for run in (a, b):
            g = run["given"]
            if [x for x in run["argv"] if x != case["flag"] or not case["flag"]] != [g]:
                return viol("explicit", {"given": g, "argv": run["argv"]}, "explicit path not passed verbatim")
            if run["error"]:
                return viol("explicit", {"given": g, "error": run["error"]}, "run with explicit path failed")
            want = {g} if os.path.isabs(g) else {g, str(Path(run["jobdir"]) / g)}
            if len(run["outputs"]) != 1 or run["outputs"][0] not in want:
                return viol("explicit", {"given": g, "outputs": run["outputs"]}, "output is not the explicit path")
        r.update(verdict="held", obs=obs)
        return r
    # ---- template-resolved
    for run, paths in ((a, paths_a), (b, paths_b)):
        if not paths:
            return viol("inside", {"argv": run["argv"]}, "no path passed for a template-resolved outarg")
        jd = run["jobdir"]
        if jd is None or Path(jd).parent != Path(run["cache"]):
            r.update(verdict="inconclusive", why="job directory not identified")
            return r
        for p in paths:
            pp = Path(p)
            comp = p.rsplit("/", 1)[-1]
            r["counters"]["inside_checked"] = r["counters"].get("inside_checked", 0) + 1
            if os.path.dirname(p) != jd or comp in ("", ".", "..") or os.path.normpath(p) != p:
                return viol("inside", {"path": p, "jobdir": jd, "component": comp},
                            "resolved path is not an entry of the job's own directory")
            if not pp.exists():
                return viol("inside", {"path": p, "jobdir": jd, "component": comp}, "resolved path was not created there")
        if run["error"]:
            return viol("run", {"error": run["error"], "argv": run["argv"]}, "run failed after resolving the template")
        if sorted(set(run["outputs"])) != sorted(set(paths)):
            return viol("inside", {"outputs": run["outputs"], "argv_paths": paths}, "output value differs from the path passed")
    names_a = [Path(p).name for p in paths_a]
    names_b = [Path(p).name for p in paths_b]
    r["counters"]["determinism_checked"] = 1
    if names_a != names_b:
        return viol("determinism", {"A": names_a, "B": names_b}, "same inputs, different names")
    exp = expected_names(case)
    r.update(obs=obs)
    if exp is None:
        r["verdict"] = "held"
        return r
    r["counters"]["extension_checked"] = 1
    if len(exp) != len(names_a):
        return viol("extension", {"expected": [sorted(e["strict"]) for e in exp], "observed": names_a}, "number of outputs")
    may = False
    for e, got in zip(exp, names_a):
        if got in e["strict"]:
            continue
        if got in e["pathsem"]:
            may = True
            continue
        fn = [d for d in case["inputs"] if d["kind"] == "file" and "{" + d["name"] in case["template"]][0]["fname"]
        exts = [x for _, x in split_ext_candidates(fn) if x]
        dropped = bool(exts) and not any(got.endswith(x) for x in exts)
        return viol("extension", {"expected": sorted(e["strict"]), "observed": got, "dropped": dropped},
                    "file name does not follow the keep_extension rule")
    # Which dots of a multi-dot name are "the extension" is left open, but the choice must be the *same* when
    # the extension is kept and when it is dropped: run the twin case (keep_extension flipped) and require one
    # common (stem, extension) split that explains both names.
    fobj = [d for d in case["inputs"] if d["kind"] == "file" and "{" + d["name"] in case["template"]]
    own_ext = "." in re.sub(r"{[^}]*}", "", case["template"].rsplit("/", 1)[-1])
    if len(fobj) == 1 and fobj[0]["fname"].count(".") >= 2 and not own_ext and len(names_a) == 1 and not case.get("_twin"):
        twin = dict(case, keep_extension=not case["keep_extension"], _twin=True)
        t = run_once(twin, wctx, "T")
        tpaths = [x for x in t["argv"] if x != case["flag"] or not case["flag"]]
        if t["calls"] == 1 and len(tpaths) == 1:
            r["counters"]["keep_drop_twins_checked"] = 1
            kept, dropped = (names_a[0], Path(tpaths[0]).name) if case["keep_extension"] else (Path(tpaths[0]).name, names_a[0])
            ok = any(ext and kept == dropped + ext for _, ext in split_ext_candidates(fobj[0]["fname"])) or kept == dropped
            if not ok:
                return viol("extension", {"kept": kept, "dropped": dropped, "file": fobj[0]["fname"]},
                            "the extension that is dropped is not the extension that is kept")
    if may:
        r["verdict"] = "may"
        r["counters"]["literal_before_file_ref_swallowed"] = 1
    else:
        r["verdict"] = "held"
    return r


def _directed():
    """corner cases every run includes (same generator vocabulary, chosen rather than drawn)"""
    f = {"name": "in_file0", "kind": "file", "fname": "x.txt"}
    g = {"name": "in_file0", "kind": "file", "fname": "scan.nii.gz"}
    x = {"name": "n1", "kind": "float", "value": 0.5}

    def s(v):
        return {"name": "s0", "kind": "str", "value": v}

    def c(inputs, template, ke=True, ov="default", multi=False, optional=False, flag=""):
        return {"inputs": inputs, "template": template, "keep_extension": ke, "multi": multi, "optional": optional,
                "out_value": ov, "flag": flag}
    return [c([s("..")], "{s0}"), c([s(".")], "{s0}"), c([s("a/..")], "{s0}"), c([s("..")], "sub/{s0}"),
            c([s("..")], "{s0}_out.txt"), c([s("../../etc")], "{s0}"), c([s("/abs/name")], "{s0}.txt"),
            c([f], "{in_file0}_out"), c([f], "{in_file0}_out", ke=False), c([f], "../{in_file0}_out"),
            c([f], "./{in_file0}_out", ke=False), c([f, x], "{in_file0}_{n1:.2f}"), c([f], "/abs/dir/{in_file0}.json"),
            c([g], "{in_file0}_out"), c([g], "{in_file0}"), c([f], "{in_file0}", ke=False),
            c([f], "{in_file0}_out", ov={"abs_path": "given.txt"}), c([f], "{in_file0}_out", ov={"rel": "r.txt", "as": "str"}),
            c([f], "../../{in_file0}_out", ov="true", flag="-o"), c([], "/etc/passwd"), c([], "../escape.txt")]


def case_batch(case, wctx):
    out = []
    todo = _directed() if case.get("directed") else [gen_case(wctx.rng(f"o{i}")) for i in range(case["lo"], case["hi"])]
    for c in todo:
        try:
            out.append(decide(c, wctx))
        except Exception as e:
            out.append({"verdict": "inconclusive", "case": c, "why": "harness: " + env.short_tb(e, 5)})
    return {"multi": out}


def run(ctx):
    quick = ctx.tier == "quick"
    n = 195 if quick else 2500
    per = 13 if quick else 80
    ctx.rule = ("21 directed corner cases + generated (path_template, referenced inputs, keep_extension, outarg value) cases, each run for real "
                "twice in fresh cache roots with the touchfile fake; non-trivial = the outarg is not switched off; "
                "distinct = distinct case specs")
    cases = [{"directed": True, "lo": 0, "hi": 0}] + [{"lo": i, "hi": min(n, i + per)} for i in range(0, n, per)]
    ctx.record_all(ctx.pmap("vp.props.c26:case_batch", cases, nproc=16, timeout=300 if quick else 1500))
    ctx.assumptions = ["the job's own directory is Result.cache_dir and must be a direct child of the cache_root given",
                       "inputs other than the outarg are kept off the command line (argstr=None) so that every "
                       "path the fake receives is an output path"]


def replay(ctx, rep):
    from vp.worker import WCtx
    r = decide(rep["case"], WCtx(str(ctx.scratch), ctx.seed, "C26", ctx.tier))
    print(env.jdump({k: r.get(k) for k in ("verdict", "mech", "witness", "obs", "why")}, indent=1))
    return 1 if r["verdict"] == "violated" else 0
