"""C04 — splitting nested containers visits every inner element.

Observe: Task.split(a=nested, container_ndim={"a": n}) run end to end with a term-valued body
(alone, inside an outer splitter, inside an inner splitter, and as a workflow node splitting over the nested output
of a split upstream node): returned outputs + body starts.
Oracle: depth-first collection of the elements at depth n (10 lines, below).
MAY class: inner pairing of a *regular* multi-dimensional value with a flat list of the same
element count (pydra rejects on shape; the C01 statement leaves that open) — accepted only if
rejected before any job ran.
"""
from __future__ import annotations

import itertools
import typing as ty

from vp import env, evlog
from vp.terms import s as render

LEVEL = "exploration"


def collect(v, n):
    """elements found at depth n, depth-first"""
    if n == 0:
        return [v]
    out = []
    for x in v:
        out += collect(x, n - 1)
    return out


def gen_nested(rng, depth, counter, hi=3, p_empty=0.12):
    if depth == 0:
        counter[0] += 1
        return f"t{counter[0]}"
    n = 0 if rng.random() < p_empty else rng.randint(1, hi)
    return [gen_nested(rng, depth - 1, counter, hi, p_empty) for _ in range(n)]


def regular_shape(v, n):
    """shape tuple if v is regular down to depth n else None"""
    if n == 0:
        return ()
    subs = [regular_shape(x, n - 1) for x in v]
    if any(x is None for x in subs) or len(set(subs)) > 1:
        return None
    return (len(v),) + (subs[0] if subs else (0,) * (n - 1))


def ragged_below(v, n):
    return n >= 2 and regular_shape(v, n) is None


def all_nested(depth, hi, counter=None):
    """every nested list of exactly `depth` levels with inner lengths 0..hi (structure only)"""
    if depth == 0:
        return [None]
    subs = all_nested(depth - 1, hi)
    out = []
    for n in range(hi + 1):
        out += [list(c) for c in itertools.product(subs, repeat=n)]
    return out


def label(v, counter):
    if v is None:
        counter[0] += 1
        return f"t{counter[0]}"
    return [label(x, counter) for x in v]


def _defs():
    from pydra.compose import python, workflow
    from vp.terms import F

    @python.define(outputs=["out"])
    def Pick(i: int, table: list) -> ty.Any:
        return table[i]

    @workflow.define(outputs=["out"])
    def WfUp(table: list, idx: list, nd: int, comb: bool = False) -> ty.Any:
        """an upstream node split over idx returns table[i]; the downstream node splits over that output"""
        up = workflow.add(Pick(table=table).split(i=idx), name="up")
        t = F().split(a=up.out, container_ndim={"a": nd}) if nd else F().split(a=up.out)
        if comb:
            t = t.combine("a")        # leaves the upstream axis: one group per upstream state
        down = workflow.add(t, name="down")
        return down.out
    return Pick, WfUp


try:  # pydra is bound by the check CLI / worker before this module is imported
    Pick, WfUp = _defs()
except Exception:  # pragma: no cover
    Pick = WfUp = None


def decide_wf(case, wctx):
    """context wf_upstream: value = one nested list per upstream state; n = 0 means 'no container_ndim given' (= 1)"""
    from pydra.engine.submitter import Submitter
    from pydra.engine.workflow import Workflow
    Workflow.clear_cache()
    vals, n = case["value"], case["n"]
    want = [f"F(a={render(e)})" for v in vals for e in collect(v, n or 1)]
    want_out = [[f"F(a={render(e)})" for e in collect(v, n or 1)] for v in vals] if case.get("comb") else want
    r = {"case": case, "sig": env.sig_of(case), "counters": {"ctx_wf_upstream": 1},
         "nontrivial": len(want) >= 2 and len(vals) >= 2}
    log = evlog.start(wctx.fresh_dir("log") / "ev.jsonl")
    err = out = None
    try:
        with Submitter(worker="debug", cache_root=wctx.fresh_dir("cache")) as sub:
            res = sub(WfUp(table=vals, idx=list(range(len(vals))), nd=n, comb=bool(case.get("comb"))), raise_errors=True)
        out = [list(x) if isinstance(x, (list, tuple)) and case.get("comb") else x for x in res.outputs.out]
    except Exception as e:
        err = f"{type(e).__name__}: {str(e)[:200]}"
    starts = [e["term"] for e in evlog.read(log) if e["ev"] == "start"]
    r["counters"]["body_starts"] = len(starts)
    r["counters"]["elements_expected"] = len(want)
    r["obs"] = {"out": out if out is None else out[:8], "error": err, "starts": len(starts)}
    if not want and err is None and not starts:
        # no element at depth n anywhere: C04 only demands that no job runs; how the (combined) output of a job-less node
        # is assembled is C03's subject (open mechanism no-job-output-node-loses-inherited-axes)
        r["verdict"] = "held"
        r["nontrivial"] = False
        return r
    if err is not None or out != want_out or set(starts) != set(want):
        r["verdict"] = "violated"
        r["witness"] = {"why": "downstream jobs are not the depth-n elements of every upstream output, in order"
                               " (grouped by upstream state when combined)",
                        "error": err, "expected": want_out[:12], "got": None if out is None else out[:12],
                        "n_expected": len(want), "n_got": None if out is None else len(out)}
        # mechanism: the number of elements each upstream state contributes is mis-counted - elements are lost when the
        # outputs are regular with n >= 2, or all attributed to the first upstream state when the counts differ
        shapes = [regular_shape(v, n) for v in vals] if n >= 2 else [None]
        counts = [len(collect(v, n or 1)) for v in vals]
        flat = [x for g in out for x in g] if (out and case.get("comb") and all(isinstance(g, list) for g in out)) else out
        if err is None and ((n >= 2 and all(sh is not None for sh in shapes) and len(out or []) < len(want))
                            or (case.get("comb") and len(set(counts)) > 1 and flat == want)):
            r["mech"] = "inner-len-assumes-2d-regular"
        return r
    r["verdict"] = "held"
    return r


def decide(case, wctx):
    if case["context"] == "wf_upstream":
        return decide_wf(case, wctx)
    from vp.terms import F
    from pydra.engine.submitter import Submitter
    v, n, ctxk = case["value"], case["n"], case["context"]
    elems = collect(v, n)
    r = {"case": case, "sig": env.sig_of(case), "counters": {"ctx_" + ctxk: 1}}
    r["nontrivial"] = len(elems) >= 2 and n >= 2
    if ctxk == "alone":
        splitter, kw = "a", {"a": v}
        want = [f"F(a={render(e)})" for e in elems]
    elif ctxk in ("outer_l", "outer_r"):
        ys = ["y0", "y1"]
        kw = {"a": v, "b": ys}
        if ctxk == "outer_l":
            splitter = ["a", "b"]
            want = [f"F(a={render(e)},b={y})" for e in elems for y in ys]
        else:
            splitter = ["b", "a"]
            want = [f"F(a={render(e)},b={y})" for y in ys for e in elems]
    else:
        ys = [f"y{i}" for i in range(len(elems))]
        splitter, kw = ("a", "b"), {"a": v, "b": ys}
        want = [f"F(a={render(e)},b={y})" for e, y in zip(elems, ys)]
    log = evlog.start(wctx.fresh_dir("log") / "ev.jsonl")
    err = out = None
    try:
        task = F().split(splitter, container_ndim={"a": n}, **kw)
        with Submitter(worker="debug", cache_root=wctx.fresh_dir("cache")) as sub:
            res = sub(task, raise_errors=True)
        out = list(res.outputs.out)
    except Exception as e:
        err = f"{type(e).__name__}: {str(e)[:200]}"
    starts = [e["term"] for e in evlog.read(log) if e["ev"] == "start"]
    r["counters"]["body_starts"] = len(starts)
    r["counters"]["elements_expected"] = len(want)
    r["obs"] = {"out": out if out is None else out[:8], "error": err, "starts": len(starts)}
    if err is not None:
        shp = regular_shape(v, n)
        if ctxk == "inner" and shp is not None and len(shp) > 1 and not starts:
            r["verdict"] = "may"
            return r
        r["verdict"] = "violated"
        r["witness"] = {"why": "valid nested split raised", "error": err, "expected": want[:10]}
        r["mech"] = None
        return r
    if out != want or set(starts) != set(want):
        r["verdict"] = "violated"
        r["witness"] = {"why": "jobs/outputs are not the depth-n elements in depth-first order",
                        "expected": want[:12], "got": out[:12], "n_expected": len(want), "n_got": len(out)}
        # mechanism: value ragged at a level < n and observed jobs are an index-prefix subset
        if ragged_below(v, n) and len(out) < len(want) and all(o in want for o in out):
            r["mech"] = "ragged-shape"
        return r
    r["verdict"] = "held"
    return r


def case_batch(case, wctx):
    return {"multi": [decide(c, wctx) for c in case["cases"]]}


def run(ctx):
    quick = ctx.tier == "quick"
    rng = ctx.rng("gen")
    cases = []
    seen = set()

    def add(v, n, context):
        c = {"value": v, "n": n, "context": context}
        k = env.sig_of(c)
        if k not in seen:
            seen.add(k)
            cases.append(c)
    # exhaustive structures of depth <=2 with inner lengths 0..2 (quick) / 0..3 (thorough), context alone
    hi = 2 if quick else 3
    n_ex = 0
    for depth in (1, 2):
        for st in all_nested(depth, hi):
            v = label(st, [0])
            for n in range(1, depth + 1):
                add(v, n, "alone")
                n_ex += 1
    contexts = ["alone", "outer_l", "outer_r", "inner"]
    for i in range(150 if quick else 6000):
        depth = rng.choice([2, 2, 3, 3, 1])
        v = gen_nested(rng, depth, [0], hi=3 if depth < 3 else 2)
        n = rng.randint(1, depth)
        add(v, n, rng.choice(contexts))
    # a workflow node splitting over the (nested) output of a split upstream node, with and without container_ndim
    for i in range(40 if quick else 1200):
        depth = rng.choice([1, 2, 2, 3])
        cnt = [0]
        vals = [gen_nested(rng, depth, cnt, hi=3 if depth < 3 else 2, p_empty=0.05) for _ in range(rng.randint(1, 3))]
        add(vals, rng.choice([0] + list(range(1, depth + 1))), "wf_upstream")
        if rng.random() < 0.5:
            cases[-1]["comb"] = True
    ctx.rule = ("nested lists of uniform depth 1-3, inner lengths 0-3, unique leaf tokens, container_ndim 1..depth, "
                "alone / in outer [a,b],[b,a] / inner (a,b) / as the output of a split upstream workflow node; all structures of depth<=2 with lengths 0..%d enumerated; "
                "non-trivial = n>=2 and >=2 elements; distinct = distinct (value, n, context)" % hi)
    ctx.record_all(ctx.pmap("vp.props.c04:case_batch",
                            [{"cases": cases[i:i + 12]} for i in range(0, len(cases), 12)],
                            timeout=900 if quick else 3400))
    ctx.extra["exhaustive_structures_depth_le2"] = n_ex
    ctx.assumptions = ["values of uniform depth >= n (mixed-depth values are outside the statement)"]


def replay(ctx, rep):
    from vp.worker import WCtx
    r = decide(rep["case"], WCtx(ctx.scratch, ctx.seed, ctx.prop, ctx.tier))
    print(env.jdump(r, indent=1))
    return 1 if r["verdict"] == "violated" else 0
