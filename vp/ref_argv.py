"""Reference model of a shell task's argument vector (C22/C23/C24 oracle).

Written from the documentation of `shell.arg` (compose/shell/field.py: argstr, position, sep) and
the statements of C22/C23 - not from pydra's command builder.  Values are *atomic*: an argument
boundary can only come from (a) a literal space of the argstr, (b) the list separator when it is a
single space, (c) the flag/value boundary of a plain argstr.  Nothing is ever re-tokenised.

Field spec (JSON): {"name", "kind": bool|str|int|float|file|list|multi, "argstr": str,
"position": int|None, "sep": str|None, "optional": bool, "default": <json>|absent}
"""
from __future__ import annotations

BOUNDARY = "\ue000"          # private-use char: argument boundary inside a built string


def sort_key(idx, fld):
    """documented order: non-negative ascending, unpositioned in definition order, negative ascending"""
    pos = fld.get("position")
    if pos is None:
        return (1, idx)
    return (0, pos) if pos >= 0 else (2, pos)


def pos_class(fld):
    pos = fld.get("position")
    return "none" if pos is None else ("pos" if pos >= 0 else "neg")


def as_text(v):
    return v if isinstance(v, str) else str(v)


def _scalar(argstr, name, text, others):
    """arguments of one (already stringified) value under `argstr`; returns list of args."""
    if "{" in argstr:
        out = []
        for tok in argstr.split(" "):
            if not tok:
                continue
            tok = tok.replace("{" + name + "}", text)
            for on, ov in others.items():
                tok = tok.replace("{" + on + "}", ov)
            out.append(tok)
        return out
    return [argstr, text] if argstr else [text]


def field_chunk(fld, value, others):
    """-> (args, elems, may, units); elems = [(supplied element text, full argument it must be inside)];
    units = [(args, value)] at the granularity at which the field contributes arguments"""
    args, elems, may = _field_chunk(fld, value, others)
    if fld["kind"] == "multi" or (fld["kind"] == "list" and fld["argstr"].endswith("...")):
        vals = value if isinstance(value, list) else ([] if value is None else [value])
        base = fld["argstr"][:-3] if fld["argstr"].endswith("...") else fld["argstr"]
        units = [(_scalar(base, fld["name"], as_text(v), others), v) for v in vals]
    else:
        units = [(args, value)] if args else []
    return args, elems, may, units


def _field_chunk(fld, value, others):
    kind, argstr, name = fld["kind"], fld["argstr"], fld["name"]
    sep = fld.get("sep") if fld.get("sep") is not None else " "
    may = []
    if value is None:
        return [], [], may
    if kind == "bool":
        return ([argstr] if value is True else []), [], may
    if kind == "multi":
        vals = value if isinstance(value, list) else [value]
        args, elems = [], []
        base = argstr[:-3] if argstr.endswith("...") else argstr
        for v in vals:
            t = as_text(v)
            if t == "":
                may.append("empty-string")
            a = _scalar(base, name, t, others)
            args += a
            elems.append((t, _holder(a, t)))
        return args, elems, may
    if kind == "list":
        vals = list(value)
        if not vals:
            may.append("empty-list")
            return [], [], may
        texts = [as_text(v) for v in vals]
        if "" in texts:
            may.append("empty-string")
        if argstr.endswith("..."):
            if sep != " ":
                may.append("ellipsis-with-sep")
            base = argstr[:-3]
            args, elems = [], []
            for t in texts:
                a = _scalar(base, name, t, others)
                args += a
                elems.append((t, _holder(a, t)))
            return args, elems, may
        joined = (BOUNDARY if sep == " " else sep).join(texts)
        built = _scalar(argstr, name, joined, others)
        args = []
        for b in built:
            args += b.split(BOUNDARY)
        elems = [(t, _holder(args, t)) for t in texts]
        return args, elems, may
    t = as_text(value)
    if t == "":
        may.append("empty-string")
    args = _scalar(argstr, name, t, others)
    return args, [(t, _holder(args, t))], may


def _holder(args, text):
    for a in args:
        if a == text:
            return a
    for a in args:
        if text in a:
            return a
    return None


def effective(fld, values):
    if fld["name"] in values:
        return values[fld["name"]]
    return fld.get("default")


def ref_argv(exe, fields, values, append_args):
    """-> {"argv", "chunks" (in reference order), "may"}"""
    others = {}
    for f in fields:
        v = effective(f, values)
        if f["kind"] in ("str", "int", "float", "file") and v is not None:
            others[f["name"]] = as_text(v)
    chunks, may = [], []
    for idx, f in sorted(enumerate(fields), key=lambda p: sort_key(*p)):
        v = effective(f, values)
        args, elems, m, units = field_chunk(f, v, {k: o for k, o in others.items() if k != f["name"]})
        may += m
        chunks.append({"name": f["name"], "cls": pos_class(f), "idx": idx, "position": f.get("position"),
                       "args": args, "elems": elems, "value": v, "kind": f["kind"],
                       "ellipsis": f["kind"] == "list" and f["argstr"].endswith("..."),
                       "templated": "{" in f["argstr"], "argstr": f["argstr"],
                       "units": [{"args": a, "value": uv} for a, uv in units]})
    argv = list(exe)
    for c in chunks:
        argv += c["args"]
    argv += [as_text(a) for a in append_args]
    return {"argv": argv, "chunks": chunks, "may": sorted(set(may))}
