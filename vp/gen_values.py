"""Value grammar shared by C06-C09.

A *spec* is a JSON tree describing a python value.  `build(spec, variant)` constructs the value
with fresh identities (variant != 0 permutes dict/set insertion orders), `canon(spec)` is the
harness' canonical content (type tag + content; dtype + shape + values for arrays; table name for
functions and types, whose table entries are pairwise semantically different), `mutate(rng, spec)`
returns a spec that differs in exactly one aspect together with the aspect's name, and
`classify_collision(a, b)` / `classify_unstable(spec)` map witnesses to mechanism ids by looking
at *what differs* (never at seeds or hashes).

Spec forms (first element is the tag):
  ["none"] ["ellipsis"] ["bool",b] ["int",n] ["float",repr] ["complex",re,im] ["str",s]
  ["bytes",latin1] ["path",s] ["range",a,b,c] ["slice",a,b,c]
  ["list",[..]] ["tuple",[..]] ["set",[..]] ["frozenset",[..]] ["dict",[[k,v],..]]
  ["nd",dtype,shape,[flat python numbers]] ["nds",dtype,value]   (array / numpy scalar)
  ["ndT",dtype,shape,[flat]]   (same content as nd but built as a transposed, non-contiguous view)
  ["obj",clsname,[[attr,spec],..]]  ["func",name]  ["type",name]
  ["sub",kind,payload]   instances of subclasses of builtins / extension objects (see SUBS)
  ["cyc",n]              a cyclic list (MAY class only)
"""
from __future__ import annotations

import collections
import enum
import functools
import json
import random
import typing as ty
from pathlib import Path, PurePosixPath

import attrs

# ------------------------------------------------------------------------------------------
# module-level classes / functions / types referenced by name from specs
# ------------------------------------------------------------------------------------------


@attrs.define
class AttrsPt:
    x: ty.Any = None
    y: ty.Any = None


@attrs.define(slots=False)
class AttrsBox:
    x: ty.Any = None
    y: ty.Any = None


class Plain:
    def __init__(self, **kw):
        self.__dict__.update(kw)


class Plain2:
    def __init__(self, **kw):
        self.__dict__.update(kw)


class Slotted:
    __slots__ = ("x", "y")

    def __init__(self, x=None, y=None):
        self.x, self.y = x, y


CLASSES = {"AttrsPt": AttrsPt, "AttrsBox": AttrsBox, "Plain": Plain, "Plain2": Plain2, "Slotted": Slotted}


class Color(enum.IntEnum):
    RED = 1
    GREEN = 2


class Tag(enum.StrEnum):
    A = "a"
    B = "b"


NT1 = collections.namedtuple("NT", "x y")
NT2 = collections.namedtuple("NT", "a b")


def add1(x):
    return x + 1


def add2(x):
    return x + 2


def dflt1(x, k=1):
    return x + k


def dflt2(x, k=2):
    return x + k


lam1 = lambda x: x + 1  # noqa: E731
lam2 = lambda x: x * 2  # noqa: E731


def _mk(k):
    def inner(x):
        return x + k
    return inner


clo1 = _mk(1)
clo2 = _mk(2)
part1 = functools.partial(dflt1, k=5)
part2 = functools.partial(dflt1, k=6)

# name -> (callable, kind).  Entries are pairwise different computations.
FUNCS = {"add1": (add1, "def"), "add2": (add2, "def"), "dflt1": (dflt1, "def"), "dflt2": (dflt2, "def"),
         "lam1": (lam1, "lambda"), "lam2": (lam2, "lambda"), "clo1": (clo1, "closure"),
         "clo2": (clo2, "closure"), "part1": (part1, "partial"), "part2": (part2, "partial"),
         "len": (len, "builtin"), "max": (max, "builtin")}

# name -> (type, kind).  Entries are pairwise != as python objects.
TYPES = {"int": (int, "class"), "float": (float, "class"), "str": (str, "class"), "bytes": (bytes, "class"),
         "list": (list, "class"), "dict": (dict, "class"), "Path": (Path, "class"),
         "AttrsPt": (AttrsPt, "class"), "Plain": (Plain, "class"), "Color": (Color, "class"),
         "List[int]": (ty.List[int], "typing"), "List[str]": (ty.List[str], "typing"),
         "Dict[str,int]": (ty.Dict[str, int], "typing"), "Dict[str,float]": (ty.Dict[str, float], "typing"),
         "Tuple[int,...]": (ty.Tuple[int, ...], "typing"), "Tuple[int,int]": (ty.Tuple[int, int], "typing"),
         "Union[int,str]": (ty.Union[int, str], "typing"), "Union[int,float]": (ty.Union[int, float], "typing"),
         "Any": (ty.Any, "typing"),
         "int|bytes": (int | bytes, "uniontype"), "float|bytes": (float | bytes, "uniontype"),
         "list[int]": (list[int], "pep585"), "list[str]": (list[str], "pep585"),
         "dict[str,int]": (dict[str, int], "pep585"), "tuple[int,str]": (tuple[int, str], "pep585")}

# kinds of "sub" specs: instances of subclasses of registered builtins (the base value is `payload`)
# and extension objects without __dict__/__slots__ whose state is `payload`
SUBS = {
    "intenum": lambda p: Color(p), "strenum": lambda p: Tag(p),
    "ordereddict": lambda p: collections.OrderedDict(p), "counter": lambda p: collections.Counter(dict(p)),
    "nt1": lambda p: NT1(*p), "nt2": lambda p: NT2(*p),
    "bytearray": lambda p: bytearray(p.encode("latin1")), "deque": lambda p: collections.deque(p),
}
SUB_BASE = {"intenum": "int", "strenum": "str", "ordereddict": "dict", "counter": "dict", "nt1": "tuple",
            "nt2": "tuple", "bytearray": None, "deque": None}


# ------------------------------------------------------------------------------------------
# build
# ------------------------------------------------------------------------------------------

def build(spec, variant: int = 0, _rng=None):
    """Construct the python value; variant != 0 shuffles the insertion order of sets and dicts and may build
    >=2-d arrays in Fortran order (equal values, constructed differently)."""
    rng = _rng or (random.Random(variant) if variant else None)
    t = spec[0]

    def kids(xs):
        xs = list(xs)
        if rng is not None:
            rng.shuffle(xs)
        return xs
    if t == "none":
        return None
    if t == "ellipsis":
        return ...
    if t == "bool":
        return bool(spec[1])
    if t == "int":
        return int(spec[1])
    if t == "float":
        return float(spec[1])
    if t == "complex":
        return complex(float(spec[1]), float(spec[2]))
    if t == "str":
        return "".join([spec[1]])  # fresh object
    if t == "bytes":
        return spec[1].encode("latin1")
    if t == "path":
        return PurePosixPath(spec[1])
    if t == "range":
        return range(*spec[1:4])
    if t == "slice":
        return slice(*spec[1:4])
    if t == "list":
        return [build(s, 0, rng) for s in spec[1]]
    if t == "tuple":
        return tuple(build(s, 0, rng) for s in spec[1])
    if t == "set":
        return set(build(s, 0, rng) for s in kids(spec[1]))
    if t == "frozenset":
        return frozenset(build(s, 0, rng) for s in kids(spec[1]))
    if t == "dict":
        return {build(k, 0, rng): build(v, 0, rng) for k, v in kids(spec[1])}
    if t in ("nd", "ndT"):
        import numpy as np
        a = np.array(spec[3], dtype=spec[1]).reshape(spec[2])
        if t == "ndT" and a.ndim >= 2:
            a = np.ascontiguousarray(a.T).T  # same content, Fortran-ordered view
        elif rng is not None and a.ndim >= 2 and rng.random() < 0.5:
            a = np.asfortranarray(a)         # construction variant: equal array, other memory layout
        return a
    if t == "ndTT":
        # the flat values laid out for the *reversed* shape and viewed transposed: same shape, dtype and raw
        # buffer as ["nd", dtype, shape, flat], other logical content (unless symmetric), non-contiguous
        import numpy as np
        return np.array(spec[3], dtype=spec[1]).reshape(list(reversed(spec[2]))).T
    if t == "nds":
        import numpy as np
        return np.dtype(spec[1]).type(spec[2])
    if t == "obj":
        cls = CLASSES[spec[1]]
        return cls(**{k: build(v, 0, rng) for k, v in kids(spec[2])})
    if t == "func":
        return FUNCS[spec[1]][0]
    if t == "type":
        return TYPES[spec[1]][0]
    if t == "sub":
        k, p = spec[1], spec[2]
        if k in ("ordereddict", "counter"):
            return SUBS[k]([(build(a, 0, rng), build(b, 0, rng)) for a, b in p])
        if k in ("nt1", "nt2", "deque"):
            return SUBS[k]([build(s, 0, rng) for s in p])
        return SUBS[k](p)
    if t == "cyc":
        a = [spec[1]]
        b = [a, spec[1]]
        a.append(b)
        return a
    raise ValueError(f"bad spec {spec!r}")


# ------------------------------------------------------------------------------------------
# canonical content
# ------------------------------------------------------------------------------------------

def canon(spec) -> str:
    return json.dumps(_canon(spec), sort_keys=True)


def _canon(spec):
    t = spec[0]
    if t in ("list", "tuple"):
        return [t, [_canon(s) for s in spec[1]]]
    if t in ("set", "frozenset"):
        return [t, sorted(json.dumps(_canon(s), sort_keys=True) for s in spec[1])]
    if t == "dict":
        return [t, sorted(json.dumps([_canon(k), _canon(v)], sort_keys=True) for k, v in spec[1])]
    if t == "float":
        return [t, repr(float(spec[1]))]
    if t == "range":
        return [t, repr(range(*spec[1:4]))] if len(range(*spec[1:4])) else [t, "empty"]
    if t in ("nd", "ndT"):
        import numpy as np
        a = np.array(spec[3], dtype=spec[1]).reshape(spec[2])
        return ["nd", a.dtype.str, list(a.shape), [repr(x) for x in a.ravel().tolist()]]
    if t == "ndTT":
        import numpy as np
        a = np.array(spec[3], dtype=spec[1]).reshape(list(reversed(spec[2]))).T
        return ["nd", a.dtype.str, list(a.shape), [repr(x) for x in a.ravel().tolist()]]
    if t == "nds":
        import numpy as np
        return ["nds", np.dtype(spec[1]).str, repr(spec[2])]
    if t == "obj":
        return [t, spec[1], sorted(json.dumps([k, _canon(v)], sort_keys=True) for k, v in spec[2])]
    if t == "sub":
        k, p = spec[1], spec[2]
        if k == "counter" or k == "ordereddict":
            # OrderedDict equality is order sensitive, Counter's is not; keep listed order for the former
            items = [json.dumps([_canon(a), _canon(b)], sort_keys=True) for a, b in p]
            return [t, k, items if k == "ordereddict" else sorted(items)]
        if k in ("nt1", "nt2", "deque"):
            return [t, k, [_canon(s) for s in p]]
        return [t, k, p]
    return list(spec)


def has_tag(spec, tags) -> bool:
    if spec[0] in tags:
        return True
    return any(has_tag(s, tags) for s in children(spec))


def children(spec):
    t = spec[0]
    if t in ("list", "tuple", "set", "frozenset"):
        return list(spec[1])
    if t == "dict":
        return [x for kv in spec[1] for x in kv]
    if t == "obj":
        return [v for _, v in spec[2]]
    if t == "sub":
        k, p = spec[1], spec[2]
        if k in ("ordereddict", "counter"):
            return [x for kv in p for x in kv]
        if k in ("nt1", "nt2", "deque"):
            return list(p)
    return []


def size(spec) -> int:
    return 1 + sum(size(c) for c in children(spec))


# ------------------------------------------------------------------------------------------
# generation
# ------------------------------------------------------------------------------------------
INTS = [0, 1, 2, -1, 7, 8, 16, 255, 256, 2**31, 2**63 - 1, -2**63, 2**64, 2**70, 10**30]
STRS = ["", "a", "b", "ab", "c", "abc", "1", "a,b", "é", "x" * 40, "0", "None", "str:1:a"]
BYTS = ["", "a", "ab", "\x00", "\x00\x00", "1", "\xff\xfe"]
FLTS = ["0.0", "1.0", "1.5", "-1.0", "1e300", "5e-324", "inf", "2.0", "0.1"]
DTYPES = ["int64", "float64", "int32", "float32", "uint8", "bool", "complex128", "int16"]


def gen_scalar(rng, hashable_only=False, orderable=None):
    """orderable: None = anything, "int" / "str" = only mutually orderable scalars of that family."""
    if orderable == "int":
        return ["int", rng.choice(INTS[:9] + [rng.randint(-50, 50)])]
    if orderable == "str":
        return ["str", rng.choice(STRS + [rng.choice("abcxyz") * rng.randint(1, 3)])]
    k = rng.random()
    if k < 0.28:
        return ["int", rng.choice(INTS + [rng.randint(-1000, 1000)])]
    if k < 0.48:
        return ["str", rng.choice(STRS)]
    if k < 0.58:
        return ["float", rng.choice(FLTS)]
    if k < 0.66:
        return ["bool", rng.random() < 0.5]
    if k < 0.74:
        return ["bytes", rng.choice(BYTS)]
    if k < 0.79:
        return ["none"]
    if k < 0.83:
        return ["complex", rng.choice(FLTS[:4]), rng.choice(FLTS[:4])]
    if k < 0.87:
        return ["path", rng.choice(["/a", "/a/b", "a", "/a b", "."])]
    if k < 0.90:
        return ["range", rng.randint(0, 3), rng.randint(4, 9), rng.randint(1, 3)]
    if k < 0.93:
        return ["nds", rng.choice(["int64", "float64", "int32", "float32"]), rng.randint(0, 5)]
    if k < 0.95:
        return ["ellipsis"]
    if k < 0.97:
        return ["type", rng.choice(sorted(TYPES))]
    return ["func", rng.choice(sorted(FUNCS))]


def gen_array(rng, exotic=True):
    dt = rng.choice(DTYPES)
    shape = rng.choice([[0], [1], [2], [3], [4], [6], [2, 3], [3, 2], [1, 6], [6, 1], [2, 2], [2, 1, 3],
                        [1, 2, 3], [12], [3, 4], [4, 3], [2, 2, 3], []])
    n = 1
    for s in shape:
        n *= s
    if dt == "bool":
        vals = [rng.random() < 0.5 for _ in range(n)]
    elif rng.random() < 0.4:
        vals = [0] * n
    else:
        vals = [rng.randint(0, 5) for _ in range(n)]
    tag = "ndT" if exotic and len(shape) >= 2 and rng.random() < 0.2 else "nd"
    return [tag, dt, shape, vals]


def gen_hashable(rng, depth, family=None):
    """A hashable value usable as set element / dict key; `family` keeps siblings mutually orderable."""
    k = rng.random()
    if depth <= 0 or k < 0.7:
        return gen_scalar(rng, orderable=family or rng.choice(["int", "str"]))
    if k < 0.85:
        fam = rng.choice(["int", "str"])
        return ["tuple", [gen_hashable(rng, 0, fam) for _ in range(rng.randint(1, 3))]]
    return ["frozenset", _uniq([gen_hashable(rng, depth - 1, rng.choice(["int", "str"]))
                               for _ in range(rng.randint(0, 3))])]


def _uniq(specs):
    """Drop specs whose built values compare equal (e.g. 1 and True) - they would collapse in a set."""
    out, seen = [], []
    for s in specs:
        v = build(s)
        if any(type(v) is type(w) and v == w or v == w for w in seen):
            continue
        seen.append(v)
        out.append(s)
    return out


def gen_set_elems(rng, depth, p_setofsets=0.25, p_mixed=0.05):
    n = rng.randint(0, 5)
    k = rng.random()
    if depth > 0 and k < p_setofsets:
        # elements that are themselves (frozen)sets or tuples containing them: only partially ordered by <
        el = []
        for _ in range(max(2, n)):
            fs = ["frozenset", _uniq([gen_scalar(rng, orderable=rng.choice(["int", "str"]))
                                     for _ in range(rng.randint(0, 3))])]
            el.append(fs if rng.random() < 0.8 else ["tuple", [fs, ["int", rng.randint(0, 3)]]])
        return _uniq(el)
    if k < p_setofsets + p_mixed:
        return _uniq([gen_scalar(rng, orderable=rng.choice(["int", "str"])) for _ in range(max(2, n))])
    fam = rng.choice(["int", "str"])
    if depth > 0 and rng.random() < 0.25:
        return _uniq([["tuple", [gen_scalar(rng, orderable=fam) for _ in range(2)]] for _ in range(n)])
    return _uniq([gen_scalar(rng, orderable=fam) for _ in range(n)])


def gen_value(rng, depth=3, exotic=True, numpy=True):
    k = rng.random()
    if depth <= 0 or k < 0.30:
        return gen_scalar(rng)
    if numpy and k < 0.40:
        return gen_array(rng, exotic)
    if k < 0.55:
        return ["list", [gen_value(rng, depth - 1, exotic, numpy) for _ in range(rng.randint(0, 4))]]
    if k < 0.65:
        return ["tuple", [gen_value(rng, depth - 1, exotic, numpy) for _ in range(rng.randint(0, 4))]]
    if k < 0.75:
        return [rng.choice(["set", "frozenset"]), gen_set_elems(rng, depth - 1)]
    if k < 0.87:
        if rng.random() < 0.15:
            keys = gen_set_elems(rng, depth - 1, p_setofsets=0.7)
        else:
            keys = gen_set_elems(rng, 0, p_setofsets=0.0)
        return ["dict", [[kk, gen_value(rng, depth - 1, exotic, numpy)] for kk in keys]]
    if k < 0.95 or not exotic:
        cls = rng.choice(sorted(CLASSES))
        return ["obj", cls, [[a, gen_value(rng, depth - 1, exotic, numpy)] for a in ("x", "y")]]
    return gen_sub(rng, depth)


def gen_sub(rng, depth=1):
    k = rng.choice(sorted(SUBS))
    if k == "intenum":
        return ["sub", k, rng.choice([1, 2])]
    if k == "strenum":
        return ["sub", k, rng.choice(["a", "b"])]
    if k == "bytearray":
        return ["sub", k, rng.choice(BYTS)]
    if k in ("ordereddict", "counter"):
        keys = _uniq([gen_scalar(rng, orderable="str") for _ in range(rng.randint(1, 3))])
        return ["sub", k, [[kk, ["int", rng.randint(1, 4)]] for kk in keys]]
    if k in ("nt1", "nt2"):
        return ["sub", k, [gen_scalar(rng), gen_scalar(rng)]]
    return ["sub", k, [gen_scalar(rng) for _ in range(rng.randint(0, 3))]]


# ------------------------------------------------------------------------------------------
# one-aspect mutations: (aspect, spec')  — spec' differs from spec in exactly that aspect
# ------------------------------------------------------------------------------------------

def _paths(spec, pre=()):
    yield pre, spec
    t = spec[0]
    if t in ("list", "tuple"):
        for i, s in enumerate(spec[1]):
            yield from _paths(s, pre + (1, i))
    elif t == "dict":
        for i, (k, v) in enumerate(spec[1]):
            yield from _paths(v, pre + (1, i, 1))
    elif t == "obj":
        for i, (k, v) in enumerate(spec[2]):
            yield from _paths(v, pre + (2, i, 1))


def _replace(spec, path, new):
    if not path:
        return new
    spec = list(spec)
    spec[path[0]] = _replace(spec[path[0]], path[1:], new)
    return spec


def mutate_node(rng, s):
    """Candidate (aspect, replacement) for one node; None when no mutation applies."""
    t = s[0]
    c = []
    if t == "int":
        c += [("scalar-content", ["int", s[1] + rng.choice([1, -1, 256, 2**32])]),
              ("scalar-type", ["float", repr(float(s[1]))]) if abs(s[1]) < 2**50 else None,
              ("scalar-type", ["str", str(s[1])]),
              ("scalar-type", ["nds", "int64", s[1]]) if abs(s[1]) < 2**62 else None,
              ("scalar-type", ["bool", bool(s[1])]) if s[1] in (0, 1) else None,
              ("subclass", ["sub", "intenum", s[1]]) if s[1] in (1, 2) else None]
    elif t == "str":
        c += [("scalar-content", ["str", s[1] + rng.choice("abz")]),
              ("scalar-type", ["bytes", s[1]]) if all(ord(ch) < 256 for ch in s[1]) else None,
              ("scalar-type", ["path", s[1]]) if s[1] else None,
              ("subclass", ["sub", "strenum", s[1]]) if s[1] in ("a", "b") else None]
    elif t == "bytes":
        c += [("scalar-content", ["bytes", s[1] + "\x00"]), ("scalar-type", ["str", s[1]]),
              ("ext-state-type", ["sub", "bytearray", s[1]])]
    elif t == "float":
        c += [("scalar-content", ["float", repr(float(s[1]) * 2 + 1)]) if s[1] != "inf" else None,
              ("scalar-type", ["nds", "float64", float(s[1])]),
              ("scalar-type", ["complex", s[1], "0.0"])]
    elif t == "bool":
        c += [("scalar-content", ["bool", not s[1]]), ("scalar-type", ["int", int(s[1])]),
              ("scalar-type", ["nds", "bool", bool(s[1])])]
    elif t == "none":
        c += [("scalar-type", ["str", "None"]), ("scalar-type", ["bool", False]), ("scalar-type", ["ellipsis"])]
    elif t == "path":
        c += [("scalar-content", ["path", s[1] + "/z"]), ("scalar-type", ["str", s[1]])]
    elif t == "range":
        c += [("scalar-content", ["range", s[1], s[2] + s[3], s[3]]),
              ("container-kind", ["list", [["int", i] for i in range(*s[1:4])]])]
    elif t in ("list", "tuple"):
        xs = s[1]
        c += [("container-kind", ["tuple" if t == "list" else "list", xs])]
        if t == "tuple" and len(xs) == 2:
            c += [("subclass", ["sub", "nt1", xs])]
        if len(xs) >= 2:
            i = rng.randrange(len(xs) - 1)
            c += [("nesting", [t, xs[:i] + [[t, xs[i:i + 2]]] + xs[i + 2:]])]
            if canon(xs[i]) != canon(xs[i + 1]):
                c += [("order", [t, xs[:i] + [xs[i + 1], xs[i]] + xs[i + 2:]])]
            if xs[i][0] == "str" and xs[i + 1][0] == "str" and xs[i][1]:
                c += [("nesting", [t, xs[:i] + [["str", xs[i][1][:-1]], ["str", xs[i][1][-1] + xs[i + 1][1]]]
                                   + xs[i + 2:]])]
        if xs:
            c += [("container-len", [t, xs[:-1]]), ("nesting", [t, [[t, xs]]])]
        else:
            c += [("container-len", [t, [["none"]]])]
    elif t in ("set", "frozenset"):
        c += [("container-kind", ["frozenset" if t == "set" else "set", s[1]])]
        if s[1]:
            c += [("container-len", [t, s[1][:-1]])]
    elif t == "dict":
        if s[1]:
            k, v = s[1][-1]
            c += [("container-len", ["dict", s[1][:-1]])]
            if len(s[1]) >= 2 and canon(s[1][0][1]) != canon(v):
                c += [("order", ["dict", [[s[1][0][0], v]] + s[1][1:-1] + [[k, s[1][0][1]]]])]  # swap values
            if all(kk[0] == "str" for kk, _ in s[1]):
                c += [("subclass", ["sub", "ordereddict", s[1]])]
        else:
            c += [("container-kind", ["list", []])]
    elif t in ("nd", "ndT"):
        import numpy as np
        dt, shape, vals = s[1], s[2], s[3]
        n = len(vals)
        alts = [sh for sh in ([n], [1, n], [n, 1], [2, n // 2] if n % 2 == 0 and n else None,
                              [n // 2, 2] if n % 2 == 0 and n else None,
                              [3, n // 3] if n % 3 == 0 and n else None, list(reversed(shape)))
                if sh is not None and sh != shape]
        if alts and n:
            c += [("np-shape", ["nd", dt, rng.choice(alts), vals])]
        a = np.array(vals, dtype=dt)
        same_size = {"int64": ["float64", "uint64"], "float64": ["int64"], "int32": ["float32", "uint32"],
                     "float32": ["int32"], "uint8": ["int8", "bool"], "bool": ["uint8"], "int16": ["uint16"],
                     "complex128": []}
        for dt2 in same_size.get(dt, []):
            if n == 0:
                continue
            try:
                b = a.view(dt2)
                if dt2 == "bool" and a.max() > 1:
                    continue
                v2 = b.tolist()
                if any(isinstance(x, float) and x != x for x in v2):
                    continue
                c += [("np-dtype", ["nd", dt2, shape, v2])]  # same raw bytes, other dtype
            except Exception:
                pass
        if dt in ("int64", "int32", "int16") and n:
            c += [("np-dtype-cast", ["nd", "float64", shape, [float(x) for x in vals]])]  # same numbers
        if n:
            v2 = list(vals)
            v2[rng.randrange(n)] = (not v2[0]) if dt == "bool" else (v2[0] + 1)
            if v2 != vals:
                c += [("np-content", [t, dt, shape, v2])]
        if t == "nd" and len(shape) == 2 and min(shape) >= 2:
            tw = np.array(vals, dtype=dt).reshape(list(reversed(shape))).T
            if tw.ravel().tolist() != np.array(vals, dtype=dt).reshape(shape).ravel().tolist():
                c += [("np-layout", ["ndTT", dt, shape, vals])]  # same buffer, shape, dtype; other logical content
        if t == "nd" and len(shape) <= 1:
            c += [("container-kind", ["list", [["bool", bool(x)] if dt == "bool" else
                                               ["float", repr(float(x))] if dt.startswith("float") else
                                               ["int", int(x)] for x in vals]])] if not dt.startswith("complex") else []
    elif t == "nds":
        c += [("np-dtype-cast", ["nds", "int32" if s[1] != "int32" else "int64", s[2]])] \
            if s[1].startswith("int") else [("np-dtype-cast", ["nds", "float32" if s[1] != "float32" else "float64", s[2]])]
        c += [("np-shape", ["nd", s[1], [1], [s[2]]])]
    elif t == "obj":
        others = [k for k in sorted(CLASSES) if k != s[1]]
        c += [("obj-class", ["obj", rng.choice(others), s[2]])]
        c += [("container-kind", ["dict", [[["str", k], v] for k, v in s[2]]])]
    elif t == "func":
        kind = FUNCS[s[1]][1]
        same = [k for k in sorted(FUNCS) if FUNCS[k][1] == kind and k != s[1]]
        if kind == "def":
            pair = {"add1": "add2", "add2": "add1", "dflt1": "dflt2", "dflt2": "dflt1"}[s[1]]
            c += [("func-body" if s[1].startswith("add") else "func-default", ["func", pair])]
        elif same:
            c += [({"lambda": "func-lambda", "closure": "func-closure", "partial": "ext-state",
                    "builtin": "ext-state"}[kind], ["func", same[0]])]
    elif t == "type":
        kind = TYPES[s[1]][1]
        same = [k for k in sorted(TYPES) if TYPES[k][1] == kind and k != s[1]]
        c += [("type-" + kind, ["type", rng.choice(same)])]
    elif t == "sub":
        k, p = s[1], s[2]
        if k == "intenum":
            c += [("subclass", ["int", p]), ("scalar-content", ["sub", k, 3 - p])]
        elif k == "strenum":
            c += [("subclass", ["str", p])]
        elif k in ("ordereddict", "counter"):
            c += [("subclass", ["dict", p])]
            if k == "ordereddict" and len(p) >= 2:
                c += [("order", ["sub", k, [p[1], p[0]] + p[2:]])]
        elif k in ("nt1", "nt2"):
            c += [("subclass", ["tuple", p]), ("subclass", ["sub", "nt2" if k == "nt1" else "nt1", p])]
        elif k == "bytearray":
            c += [("ext-state", ["sub", k, p + "q"]), ("ext-state-type", ["bytes", p])]
        elif k == "deque":
            c += [("ext-state", ["sub", k, p + [["int", 9]]]), ("ext-state-type", ["list", p])]
    c = [x for x in c if x]
    return c


def mutate(rng, spec, want=None):
    """Return (aspect, spec2, differing sub-spec pair) with canon(spec2) != canon(spec), or None."""
    nodes = list(_paths(spec))
    rng.shuffle(nodes)
    for path, node in nodes:
        cands = mutate_node(rng, node)
        if want:
            cands = [x for x in cands if x[0] in want]
        if not cands:
            continue
        aspect, new = rng.choice(cands)
        s2 = _replace(spec, path, new)
        try:
            if canon(s2) != canon(spec):
                return aspect, s2, [node, new]
        except Exception:
            continue
    return None


# ------------------------------------------------------------------------------------------
# mechanism classifiers (by what differs / by what the value contains)
# ------------------------------------------------------------------------------------------

def _map(spec, f):
    """Rebuild a spec bottom-up applying f to every node."""
    t = spec[0]
    if t in ("list", "tuple", "set", "frozenset"):
        spec = [t, [_map(s, f) for s in spec[1]]]
    elif t == "dict":
        spec = [t, [[_map(k, f), _map(v, f)] for k, v in spec[1]]]
    elif t == "obj":
        spec = [t, spec[1], [[k, _map(v, f)] for k, v in spec[2]]]
    elif t == "sub" and spec[1] in ("ordereddict", "counter"):
        spec = [t, spec[1], [[_map(k, f), _map(v, f)] for k, v in spec[2]]]
    elif t == "sub" and spec[1] in ("nt1", "nt2", "deque"):
        spec = [t, spec[1], [_map(s, f) for s in spec[2]]]
    return f(spec)


def _erase_numpy(s):
    # what bytes_repr_numpy keeps: python class, element count, raw C-order bytes
    if s[0] in ("nd", "ndT", "ndTT", "nds"):
        v = build(s)
        return ["npraw", type(v).__name__, int(v.size), v.tobytes(order="C").hex() if v.dtype != object else "obj"]
    return s


def _erase_closure(s):
    return ["func", "<closure>"] if s[0] == "func" and FUNCS[s[1]][1] == "closure" else s


def _erase_lambda(s):
    return ["func", "<lambda>"] if s[0] == "func" and FUNCS[s[1]][1] == "lambda" else s


def _erase_subclass(s):
    # an instance of a subclass of a registered builtin is serialised as the base value
    if s[0] == "sub" and SUB_BASE.get(s[1]):
        return [SUB_BASE[s[1]], s[2]]
    return s


def _erase_slotless(s):
    # objects without __dict__/__slots__: the dir() fallback keeps the class only
    if s[0] == "func" and FUNCS[s[1]][1] in ("partial", "builtin"):
        return ["func", "<" + FUNCS[s[1]][1] + ">"]
    if s[0] == "type" and TYPES[s[1]][1] == "pep585":
        return ["type", "<pep585>"]
    if s[0] == "sub" and s[1] in ("bytearray", "deque"):
        return ["sub", s[1], "" if s[1] == "bytearray" else []]
    return s


ERASERS = [("numpy-shape-dtype-not-hashed", _erase_numpy), ("closure-not-hashed", _erase_closure),
           ("lambda-body-not-hashed", _erase_lambda), ("builtin-subclass-type-dropped", _erase_subclass),
           ("slotless-object-state-not-hashed", _erase_slotless)]


def classify_collision(a, b):
    """Mechanism = the kind of information whose erasure makes the two contents equal.  When no
    single erasure suffices (e.g. a namedtuple of another class holding another closure) the smallest
    set of erasures is searched and its first member (ERASERS order) is reported: the collision needs
    every member of the set, so it disappears as soon as any of them is fixed."""
    import itertools
    for n in (1, 2, 3):
        for combo in itertools.combinations(ERASERS, n):
            try:
                x, y = a, b
                for _, f in combo:
                    x, y = _map(x, f), _map(y, f)
                if canon(x) == canon(y):
                    return combo[0][0]
            except Exception:
                continue
    return None


def _partially_ordered(s):
    """element/key spec whose python value is only partially ordered by < (sets; tuples holding them)"""
    if s[0] in ("set", "frozenset"):
        return True
    if s[0] == "tuple":
        return any(_partially_ordered(x) for x in s[1])
    return False


def unstable_sort_sites(spec) -> int:
    """Number of places where pydra sorts >= 2 only-partially-ordered elements (set elements or
    dict keys that are frozensets, or tuples containing them)."""
    n = 0
    t = spec[0]
    if t in ("set", "frozenset"):
        if sum(1 for s in spec[1] if _partially_ordered(s)) >= 2:
            n += 1
    if t == "dict":
        if sum(1 for k, _ in spec[1] if _partially_ordered(k)) >= 2:
            n += 1
    for c in children(spec):
        n += unstable_sort_sites(c)
    return n


def classify_unstable(spec):
    return "set-of-sets-order" if unstable_sort_sites(spec) else None


def describe(v) -> str:
    """Deterministic full description (type + content, shape and dtype for arrays) used as the
    *result* of value-consuming tasks: two values with different canon give different text."""
    import numpy as np
    if isinstance(v, np.ndarray):
        return f"nd<{v.dtype.str}{list(v.shape)}{v.tolist()!r}>"
    if isinstance(v, np.generic):
        return f"nds<{v.dtype.str} {v.item()!r}>"
    tn = type(v).__module__ + "." + type(v).__qualname__
    if isinstance(v, (set, frozenset)):
        return f"{tn}{{{','.join(sorted(describe(x) for x in v))}}}"
    if isinstance(v, collections.OrderedDict):
        return f"{tn}{{{','.join(describe(k) + ':' + describe(x) for k, x in v.items())}}}"
    if isinstance(v, dict):
        return f"{tn}{{{','.join(sorted(describe(k) + ':' + describe(x) for k, x in v.items()))}}}"
    if isinstance(v, (list, tuple, collections.deque)):
        extra = getattr(type(v), "_fields", "")
        return f"{tn}{extra}[{','.join(describe(x) for x in v)}]"
    if type(v) in CLASSES.values():
        d = {k: getattr(v, k) for k in ("x", "y") if hasattr(v, k)}
        return f"{tn}({','.join(k + '=' + describe(x) for k, x in sorted(d.items()))})"
    if callable(v) and not isinstance(v, type):
        for name, (f, _) in FUNCS.items():
            if f is v:
                try:
                    return f"func<{name}:{v(3) if name not in ('len', 'max') else v([3, 4])}>"
                except Exception:
                    return f"func<{name}>"
    return f"{tn}:{v!r}"
