"""Generator of task *definitions* with requirement sets and xor groups (C31, C32) and the
builder that turns a JSON spec into a fresh real pydra class inside the worker.

spec = {"kind": "python"|"shell", "name": str,
        "fields": [{"name", "type": "bool"|"str?"|"int?"|"bool?", "default": NODEF|None|False|True|"u",
                    "requires": [[[name] | [name, [allowed...]], ...], ...],      # OR of AND-sets
                    "argstr", "position", "sep" (shell only), "help"}],
        "xor": [[name|None, ...], ...],
        "outs": [...]}   (shell: extra outarg with a path_template)
The body is emitted as source text (one function per spec, parameters = the field names) and
compiled from a real file; nothing is closed over.  Every body invocation appends a `start`
event to the vp.evlog file, the fake shell tool does the same.
"""
from __future__ import annotations

import itertools
import linecache
import os
from pathlib import Path

from vp.ref_rules import NODEF, UNSET

NAMES = ["a", "b", "c", "d", "e"]
TYPES = ["bool", "str?", "int?", "bool?"]
FAKE = str(Path(__file__).resolve().parent / "fakes" / "rules_tool")

DOMAIN = {
    "strlist": [["p", "q"], ["r"]],
    "bool": [UNSET, False, True],
    "str?": [UNSET, None, "u", "v", ""],
    "int?": [UNSET, None, 1, 0],
    "bool?": [UNSET, None, False, True],
}


def gen_spec(rng, kind=None, nmax=5, idx=0):
    n = rng.randint(2, nmax)
    names = NAMES[:n]
    fields = []
    for nm in names:
        t = rng.choice(TYPES)
        r = rng.random()
        if r < 0.15:
            d = NODEF
        elif r < 0.22:
            d = {"bool": True, "str?": "u", "int?": 1, "bool?": False}[t]
        else:
            d = False if t == "bool" else None
        fields.append({"name": nm, "type": t, "default": d, "requires": []})
    typ = {f["name"]: f["type"] for f in fields}
    for f in fields:
        if rng.random() < 0.55:
            others = [x for x in names if x != f["name"]]
            alts = []
            for _ in range(rng.choice([1, 1, 2, 2, 3])):
                k = min(len(others), rng.choice([1, 1, 2, 3]))
                alt = []
                for o in rng.sample(others, k):
                    if rng.random() < 0.35 and typ[o] in ("str?", "int?"):
                        allowed = {"str?": rng.choice([["u"], ["v"], ["u", "v"], ["w"]]),
                                   "int?": rng.choice([[1], [0, 1], [2]])}[typ[o]]
                        alt.append([o, allowed])
                    else:
                        alt.append([o])
                alts.append(alt)
            f["requires"] = alts
    xor = []
    for _ in range(rng.choice([0, 0, 1, 1, 2])):
        k = rng.randint(2, min(3, n))
        g = sorted(rng.sample(names, k))
        if rng.random() < 0.5:
            g = g + [None]
        if g not in xor:
            xor.append(g)
    kind = kind or rng.choice(["python", "python", "shell"])
    spec = {"kind": kind, "name": f"T{idx}", "fields": fields, "xor": xor}
    if kind == "shell":
        pos = list(range(1, n + 1))
        rng.shuffle(pos)
        for f, p in zip(fields, pos):
            f["argstr"] = rng.choice(["-" + f["name"], "--" + f["name"] + "{" + f["name"] + "}", ""]) \
                if f["type"] != "bool" and f["type"] != "bool?" else "-" + f["name"]
            f["position"] = p if rng.random() < 0.6 else None
            f["help"] = "field " + f["name"]
        if rng.random() < 0.4:
            src = [f["name"] for f in fields if f["type"] == "str?"]
            if src:
                spec["outarg"] = {"name": "ofile", "path_template": "{" + src[0] + "}_out.txt", "argstr": "--o"}
    return spec


def add_extras(spec, rng):
    """more field metadata for the round-trip check (C32): per-field allowed_values, a list field with a
    separator, a second output (python) / an outarg with a path template (shell)"""
    for f in spec["fields"]:
        if f["type"] == "str?" and rng.random() < 0.4:
            f["allowed_values"] = ["u", "v", ""]
    if rng.random() < 0.5:
        lf = {"name": "l", "type": "strlist", "default": rng.choice([NODEF, ["p", "q"]]), "requires": [],
              "help": "a list"}
        if spec["kind"] == "shell":
            lf.update(argstr="--l", sep=rng.choice([",", ":", None]), position=None)
        spec["fields"].append(lf)
    if spec["kind"] == "python":
        # the wrapped function's own signature defaults for a suffix of the parameters - deliberately different from
        # the field defaults given to python.arg, which take precedence
        j = len(spec["fields"])
        while j > 0 and spec["fields"][j - 1]["default"] != NODEF:
            j -= 1
        if j < len(spec["fields"]) and rng.random() < 0.6:
            spec["sigdef"] = rng.randint(j, len(spec["fields"]) - 1)
    return spec


def strip_requires(spec):
    import copy
    s = copy.deepcopy(spec)
    for f in s["fields"]:
        f["requires"] = []
    return s


def assignments(spec, limit=None, rng=None):
    doms = [DOMAIN[f["type"]] for f in spec["fields"]]
    names = [f["name"] for f in spec["fields"]]
    allc = itertools.product(*doms)
    out = [dict(zip(names, c)) for c in allc]
    if limit and len(out) > limit:
        out = rng.sample(out, limit)
    return out


def py_type(t):
    return {"bool": bool, "str?": str | None, "int?": int | None, "bool?": bool | None, "strlist": list[str]}[t]


def _req_arg(alts):
    """canonical nested form: list (OR) of lists (AND) of name | (name, allowed)"""
    return [[(r[0] if len(r) == 1 else (r[0], list(r[1]))) for r in alt] for alt in alts]


def body_source(spec):
    params = ", ".join(f["name"] for f in spec["fields"])
    SIG = {"bool": "True", "str?": "'sig'", "int?": "7", "bool?": "True", "strlist": "('s', 'g')"}
    sd = spec.get("sigdef")
    sig = params if sd is None else ", ".join(
        f["name"] + ("=" + SIG[f["type"]] if i >= sd else "") for i, f in enumerate(spec["fields"]))
    return (f"def {spec['name']}({sig}):\n"
            "    from vp import evlog\n"
            f"    evlog.emit('start', node={spec['name']!r})\n"
            f"    return {spec['name']!r} + repr(({params},))\n")


def build(spec, srcdir):
    """-> real pydra task class built with python.define / shell.define from the spec"""
    from pydra.compose import python, shell
    from pydra.compose.base.field import NO_DEFAULT
    def kw(f):
        k = dict(type=py_type(f["type"]), default=NO_DEFAULT if f["default"] == NODEF else f["default"],
                 requires=_req_arg(f["requires"]), help=f.get("help", ""))
        if f.get("allowed_values"):
            k["allowed_values"] = list(f["allowed_values"])
        return k
    if spec["kind"] == "python":
        src = body_source(spec)
        path = os.path.join(str(srcdir), f"body_{spec['name']}.py")
        with open(path, "w") as fh:
            fh.write(src)
        linecache.checkcache(path)
        ns = {"__name__": f"vp_gen_{spec['name']}"}
        exec(compile(src, path, "exec"), ns)
        inputs = {f["name"]: python.arg(**kw(f)) for f in spec["fields"]}
        return python.define(ns[spec["name"]], inputs=inputs, outputs={"out": str},
                             xor=[list(g) for g in spec["xor"]])
    inputs = {}
    for f in spec["fields"]:
        k = kw(f)
        k.update(argstr=f.get("argstr", "-" + f["name"]), position=f.get("position"))
        if f.get("sep"):
            k["sep"] = f["sep"]
        inputs[f["name"]] = shell.arg(**k)
    outputs = {}
    if spec.get("outarg"):
        from pathlib import Path as P
        o = spec["outarg"]
        outputs[o["name"]] = shell.outarg(type=P | None, path_template=o["path_template"], argstr=o["argstr"],
                                          default=None)
    return shell.define(FAKE, inputs=inputs, outputs=outputs, name=spec["name"],
                        xor=[list(g) for g in spec["xor"]])


def kwargs_of(assign):
    return {k: v for k, v in assign.items() if v != UNSET}


def parsed_requires(cls):
    """what the real class holds, in spec form (to check that the spec was understood as written)"""
    from pydra.utils.general import get_fields
    out = {}
    for f in get_fields(cls):
        if f.requires:
            out[f.name] = [[[r.name] if r.allowed_values is None else [r.name, list(r.allowed_values)]
                            for r in rs] for rs in f.requires]
    return out
