"""Mount-table / argv model for container environments (C27), written from the property text.

  runtime argv = [rt, verb, *xargs, (mflag, "src:tgt:mode")*, wflag, root+jobdir, image:tag]
                 ++ native_argv[p -> root+p for every host path p]
  needed mounts: parent(p) -> root+parent(p), rw for copied inputs / outputs, ro otherwise;
                 cache root -> root+cache_root rw.
Paths are compared up to duplicate slashes (root "/r/" + "/x" == "/r/x").
"""
from __future__ import annotations

import os
import re

FLAGS = {"docker": ("run", "-v", "-w"), "singularity": ("exec", "-B", "--pwd")}


def norm(p: str) -> str:
    p = re.sub(r"/+", "/", p)
    return p.rstrip("/") or "/"


def split_arg(a: str):
    """(prefix, path) for `PATH` or `--opt=PATH`; (a, None) if the argument holds no absolute path"""
    if a.startswith("/"):
        return "", a
    if a.startswith("-") and "=/" in a:
        h, _, t = a.partition("=")
        return h + "=", t
    return a, None


def under(p, base):
    p, base = norm(p), norm(base)
    return p == base or p.startswith(base + "/")


def model(native_argv, root, host_inputs, native_cr, cont_cr):
    """expected tail and needed mounts from the *native* argv of the same task.

    A path under the native cache root is a staged copy or an output (needs rw); an argument that
    is one of the case's input files `host_inputs` is a plain input (ro).  The native argv builder
    breaks a value at blanks; such a path is recognised by its pieces (only the first piece gets
    the root prefix).  Everything else (the executable, text) is not a host input path."""
    tail, need = [], {}
    pieces = sorted(((h.split(), h) for h in host_inputs), key=lambda x: -len(x[1]))
    for i, a in enumerate(native_argv):
        pre, p = split_arg(a)
        if i == 0 or p is None:
            tail.append(a)
            continue
        full = None
        if under(p, native_cr):
            q = norm(cont_cr) + norm(p)[len(norm(native_cr)):]
            full, mode = q, "rw"
        else:
            for ps, h in pieces:
                if norm(h) == norm(p):        # the path arrives intact (also when it contains blanks)
                    q, full, mode = p, h, "ro"
                    break
                if ps[0] == p and native_argv[i + 1:i + len(ps)] == ps[1:]:
                    q, full, mode = p, h, "ro"
                    break
        if full is None:
            tail.append(a)
            continue
        tail.append(pre + root + q)
        par = os.path.dirname(norm(full))
        if need.get(par) != "rw":
            need[par] = mode
    need[norm(cont_cr)] = "rw"
    return tail, need


def parse(argv, runtime, xargs, image):
    """split an observed runtime argv; returns dict or {'error': ...}"""
    verb, mflag, wflag = FLAGS[runtime]
    head = [runtime, verb, *xargs]
    if argv[:len(head)] != head:
        return {"error": "head", "got": argv[:len(head) + 1], "want": head}
    try:
        k = argv.index(image, len(head))
    except ValueError:
        return {"error": "image-missing"}
    mid, tail = argv[len(head):k], argv[k + 1:]
    mounts, wd, junk = [], [], []
    i = 0
    while i < len(mid):
        if mid[i] == mflag and i + 1 < len(mid):
            mounts.append(mid[i + 1])
            i += 2
        elif mid[i] == wflag and i + 1 < len(mid):
            wd.append(mid[i + 1])
            i += 2
        else:
            junk.append(mid[i])
            i += 1
    return {"mounts": mounts, "workdir": wd, "junk": junk, "tail": tail, "mid": mid}


def compare(obs, tail, need, root, jobdir):
    """list of discrepancies between a parsed observed argv and the model"""
    bad = []
    if obs["junk"]:
        bad.append({"kind": "unexpected-args-before-image", "args": obs["junk"]})
    seen = {}
    for m in obs["mounts"]:
        parts = m.split(":")
        if len(parts) != 3 or parts[2] not in ("ro", "rw"):
            bad.append({"kind": "malformed-mount", "mount": m})
            continue
        src, tgt, mode = norm(parts[0]), norm(parts[1]), parts[2]
        if src in seen and seen[src] != (tgt, mode):
            bad.append({"kind": "inconsistent-duplicate-mount", "src": src})
        seen[src] = (tgt, mode)
        if tgt != norm(root + src):
            bad.append({"kind": "wrong-target", "mount": m, "want": norm(root + src)})
    for src, mode in need.items():
        if src not in seen:
            bad.append({"kind": "missing-mount", "src": src, "mode": mode})
        elif seen[src][1] != mode:
            bad.append({"kind": "wrong-mode", "src": src, "got": seen[src][1], "want": mode})
    if len(obs["workdir"]) != 1 or norm(obs["workdir"][0]) != norm(root + jobdir):
        bad.append({"kind": "workdir", "got": obs["workdir"], "want": norm(root + jobdir)})
    got_t = [_n(a) for a in obs["tail"]]
    want_t = [_n(a) for a in tail]
    if got_t != want_t:
        bad.append({"kind": "tail", "got": obs["tail"], "want": tail})
    return bad


def _n(a):
    pre, p = split_arg(a)
    return a if p is None else pre + norm(p)


def resplit_signature(mid, need, root, mflag):
    """mechanism `mount-resplit`: an expected mount string containing whitespace appears in the
    observed arguments as its whitespace-separated pieces"""
    for src, mode in need.items():
        for r in {root, root.rstrip("/")}:
            s = f"{src}:{r}{src}:{mode}"
            pieces = s.split()
            if len(pieces) > 1:
                for i in range(len(mid) - len(pieces) + 1):
                    if mid[i:i + len(pieces)] == pieces:
                        return True
    return False
