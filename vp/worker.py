"""Case worker: python -m vp.worker module:function in.json out.jsonl scratch seed prop tier"""
import importlib
import json
import os
import sys
import tempfile
import time
from pathlib import Path

from vp import env


class WCtx:
    def __init__(self, scratch, seed, prop, tier):
        self.scratch, self.seed, self.prop, self.tier = Path(scratch), seed, prop, tier
        self._n = 0

    def rng(self, case=""):
        return env.case_rng(self.seed, self.prop, case)

    def fresh_dir(self, tag="d") -> Path:
        self._n += 1
        p = self.scratch / f"{tag}{self._n}"
        p.mkdir(parents=True, exist_ok=True)
        return p


def main():
    target, inp, outp, scratch, seed, prop, tier = sys.argv[1:8]
    env.bind(scratch)
    env.assert_bound()
    mod, fn = target.split(":")
    f = getattr(importlib.import_module(mod), fn)
    wctx = WCtx(scratch, int(seed), prop, tier)
    os.chdir(scratch)
    cases = json.loads(Path(inp).read_text())
    with open(outp, "a") as out:
        for i, c in cases:
            t0 = time.time()
            try:
                r = f(c, wctx)
            except env.HarnessError as e:
                r = {"verdict": "inconclusive", "case": c, "why": "harness: " + str(e)}
            except BaseException as e:  # a bug in the harness is never a verdict on pydra
                r = {"verdict": "inconclusive", "case": c, "why": "harness exception: " + env.short_tb(e)}
                if isinstance(e, KeyboardInterrupt):
                    raise
            r.setdefault("case", c)
            r["t"] = round(time.time() - t0, 3)
            out.write(env.jdump([i, r]) + "\n")
            out.flush()
            try:
                os.chdir(scratch)
            except Exception:
                pass


if __name__ == "__main__":
    main()
