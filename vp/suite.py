"""Run a slice of pydra's own test-suite as a workload under vp.suite_monitor and aggregate the reports."""
import glob
import json
import os
import subprocess

from vp import env


def run_suite(ctx, tests, monitor, n=8, timeout=2400, extra=()):
    """-> result dict for ctx.record(); monitor in {"graph", "job", "lasso"} selects which counter must be > 0"""
    rep_dir = ctx.scratch / f"suite-{monitor}"
    e = dict(os.environ)
    e["VP_SUITE_REPORT"] = str(rep_dir)
    e["PYTHONPATH"] = os.pathsep.join([str(env.REPO), str(env.VERIF)])
    cmd = [env.PY, "-m", "pytest", "-q", "-p", "no:cacheprovider", "-p", "vp.suite_monitor", "--no-cov", "-n", str(n),
           "-o", "addopts=", "--import-mode=importlib", *extra, *tests]
    try:
        p = subprocess.run(cmd, cwd=str(env.REPO), env=e, capture_output=True, text=True, timeout=timeout)
        tail = (p.stdout or "")[-400:]
        rc = p.returncode
    except subprocess.TimeoutExpired:
        tail, rc = "timeout", "timeout"
    agg = {"graph_checks": 0, "job_runs": 0, "sort_passes": 0, "violations": [], "monitor_errors": []}
    for f in glob.glob(str(rep_dir / "report-*.json")):
        r = json.load(open(f))
        for k in ("graph_checks", "job_runs", "sort_passes"):
            agg[k] += r.get(k, 0)
        agg["violations"] += r.get("violations", [])
        agg["monitor_errors"] += r.get("monitor_errors", [])
    mine = [v for v in agg["violations"] if v["monitor"] == monitor]
    reached = {"graph": agg["graph_checks"], "job": agg["job_runs"], "lasso": agg["sort_passes"]}[monitor]
    case = {"workload": "pydra test-suite under vp.suite_monitor", "tests": list(tests), "monitor": monitor}
    res = {"case": case, "sig": env.sig_of(case), "nontrivial": reached > 0,
           "counters": {f"suite_{monitor}_evaluations": reached},
           "obs": {"pytest_rc": rc, "pytest_tail": tail[-200:], "evaluations": reached, "monitor_errors": agg["monitor_errors"][:2]}}
    if reached == 0 or rc == "timeout":
        res.update(verdict="inconclusive", why=f"monitor reached {reached} times, pytest rc={rc}: {tail[-200:]}")
    elif mine:
        res.update(verdict="violated", witness={"violations": mine[:5], "count": len(mine)})
    else:
        res["verdict"] = "held"
    return res
