"""Append-only multi-process event log: one os.write on an O_APPEND descriptor per event,
so events from pool processes and separate submitter processes are totally ordered by file
position.  The path travels in the environment variable VP_LOG."""
import json
import os


def emit(kind, **kw):
    p = os.environ.get("VP_LOG")
    if not p:
        return
    kw["ev"] = kind
    kw["pid"] = os.getpid()
    fd = os.open(p, os.O_WRONLY | os.O_APPEND | os.O_CREAT, 0o644)
    try:
        os.write(fd, (json.dumps(kw, default=repr) + "\n").encode())
    finally:
        os.close(fd)


def start(path):
    os.environ["VP_LOG"] = str(path)
    with open(path, "w"):
        pass
    return str(path)


def read(path=None):
    p = path or os.environ.get("VP_LOG")
    out = []
    try:
        with open(p) as f:
            for line in f:
                line = line.strip()
                if line:
                    try:
                        out.append(json.loads(line))
                    except ValueError:
                        pass
    except FileNotFoundError:
        pass
    return out
