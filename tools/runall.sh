#!/bin/sh
# usage: tools/runall.sh [tier] [seed] [jobs]   - run every claimed check, summarise exit codes
cd "$(dirname "$0")/.."
tier=${1:-quick}; seed=${2:-0}; jobs=${3:-2}
mkdir -p /tmp/verif-runall
ids=$(python3 -c "import json; print(' '.join(c['property_id'] for c in json.load(open('MANIFEST.json'))['checks']))")
echo "$ids" | tr ' ' '\n' | xargs -P "$jobs" -I{} sh -c "./check {} --tier $tier --seed $seed > /tmp/verif-runall/{}.$tier.$seed.log 2>&1; echo {} rc=\$? \$(grep -E '^\[' /tmp/verif-runall/{}.$tier.$seed.log | sed 's/counters=.*wall/wall/')"
