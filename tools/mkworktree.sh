#!/bin/sh
# usage: tools/mkworktree.sh /tmp/wt-name   -> detached scratch worktree of /repo usable with VERIF_REPO=
set -e
git -C /repo worktree add -q --detach "$1"
cp /repo/pydra/utils/_version.py "$1/pydra/utils/_version.py"
echo "$1"
