#!/usr/bin/env python3
"""markdown table: per property what the last quick run covered (from evidence/*.json + MANIFEST.json)"""
import json
from pathlib import Path
H = Path(__file__).resolve().parent.parent
m = json.loads((H / "MANIFEST.json").read_text())
print("| id | deciding technique | quick run: cases / distinct non-trivial / wall | what the monitor counted |")
print("|---|---|---|---|")
for c in m["checks"]:
    pid = c["property_id"]
    try:
        e = json.loads((H / "evidence" / f"{pid}.json").read_text())
    except Exception:
        continue
    cov = e["coverage"]
    cnt = cov.get("monitor_counters", {})
    top = ", ".join(f"{k}={v}" for k, v in list(cnt.items())[:4])
    dist = cov.get("distinct_observed", {})
    if dist:
        top += "; distinct " + ", ".join(f"{k}={v}" for k, v in list(dist.items())[:2])
    print(f"| {pid} | {c.get('technique','')[:150]} | {cov['evaluations']} / {cov['distinct_nontrivial']} / {e['wall_s']:.0f}s ({e['tier']}) | {top[:170]} |")
