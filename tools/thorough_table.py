#!/usr/bin/env python3
"""markdown table of the last thorough-tier result per property, collected from `vp run` logs (/root/.vp/runs/*/log);
a development aid for DESIGN.md §8.6 - the registered commands and the evidence files do not depend on it"""
import glob, json, re, os
rows = {}
for d in sorted(glob.glob("/root/.vp/runs/*"), key=lambda p: int(os.path.basename(p))):
    try:
        commit = json.load(open(d + "/run.json")).get("verif_commit", "")[:8]
    except Exception:
        commit = ""
    for ln in open(d + "/log", errors="replace"):
        m = re.match(r"(C\d\d) rc=(\d+) \[C\d\d\] tier=thorough seed=(\d+) evaluations=(\d+) distinct_nontrivial=(\d+) violations=(\d+) known=(\d+) may=(\d+) inconclusive=(\d+)", ln)
        if m:
            rows[m.group(1)] = (m.groups(), os.path.basename(d), commit)
print("| id | exit | evaluations | distinct non-trivial | violations | known | may | inconclusive | run (/verif commit) |")
print("|---|---|---|---|---|---|---|---|---|")
for k in sorted(rows):
    g, run, commit = rows[k]
    print(f"| {k} | {g[1]} | {g[3]} | {g[4]} | {g[5]} | {g[6]} | {g[7]} | {g[8]} | #{run} ({commit}) |")
