reg("C37", "post-operation invariant monitor on the real DiGraph vs a mirror adjacency set; lasso detector on the sort loop",
    "Every operation sequence explored (random to length 12 over <=6 nodes; all sequences over 3 nodes to a fixed depth) is executed on the real DiGraph; after each operation sorted_nodes must be a permutation of the remaining nodes with every edge forward. Held on the sequences executed, not a proof.",
    "assumes the API preconditions (only predecessor-free nodes removed, no duplicate edges, no edges added while a node is half-removed); cycles are C18's subject")
reg("C38", "differential monitor: real parse_mount_table/get_mount/on_cifs/on_same_mount vs component-prefix reference over generated mount outputs",
    "Generated mount outputs (Linux/macOS formats, nested mounts, string-prefix siblings) are parsed by the real parser and every lookup is compared with the longest component-prefix mount of that table; held on the (table, path) pairs executed.",
    "oracle is relative to the table pydra's parser keeps; real `mount` is not invoked")
