reg("C37", "post-operation invariant monitor on the real DiGraph vs a mirror adjacency set; lasso detector on the sort loop",
    "Every operation sequence explored (random to length 12 over <=6 nodes; all sequences over 3 nodes to a fixed depth) is executed on the real DiGraph; after each operation sorted_nodes must be a permutation of the remaining nodes with every edge forward. Held on the sequences executed, not a proof.",
    "assumes the API preconditions (only predecessor-free nodes removed, no duplicate edges, no edges added while a node is half-removed); cycles are C18's subject")
reg("C38", "differential monitor: real parse_mount_table/get_mount/on_cifs/on_same_mount vs component-prefix reference over generated mount outputs",
    "Generated mount outputs (Linux/macOS formats, nested mounts, string-prefix siblings) are parsed by the real parser and every lookup is compared with the longest component-prefix mount of that table; held on the (table, path) pairs executed.",
    "oracle is relative to the table pydra's parser keeps; real `mount` is not invoked")
reg("C01", "reference-model oracle over observed State expansions and over the event log + outputs of real split runs",
    "Every splitter tree over <=2 (quick) / <=3 (thorough) fields x all list lengths 0-3 is checked at State level (exhaustive for that bound), sampled 4-field trees and end-to-end runs (debug and process-pool workers) are checked against the outer/inner reference including output order and early rejection of unequal inner lengths; held on the cases executed.",
    "unique tokens per list; reference model vp/ref_split.py written from the statement; MAY class: inner pairing of equal-size operands of different shape")
reg("C02", "reference-model oracle + conservation check (returned leaves == body end events) over real split+combine runs",
    "State-level partition (final_combined_ind_mapping) enumerated for all trees over <=2/3 fields x shapes x combiner subsets; end-to-end runs as a task and as a workflow node feeding a downstream term node compare the ordered groups; held on the cases executed.",
    "unique tokens; reference vp/ref_split.combine written from the statement")
reg("C03", "event-log monitor of every node body + nested-loop (natural join) reference evaluator, verdict per node",
    "Random workflow graphs of 2-5 term nodes are run on the real engine; each node's multiset of job input terms and the workflow output (order included) must equal the reference; a known defect family is attributed per node by a structural predicate so other mismatches still fail.",
    "generator grammar: literal/own splitters, own-axis combiners, chains/fan-in/diamonds; reference vp/ref_wf.py from the statement")
reg("C04", "depth-first element reference over real nested-container splits (outputs + body starts)",
    "All nested structures of depth <=2 with inner lengths 0..2/3 and sampled depth-3 values, container_ndim 1..depth, alone, inside outer/inner splitters and as a workflow node splitting over the nested output of a split upstream node (with and without a combiner that groups per upstream state), run end to end; jobs/outputs must be the depth-n elements in DFS order.",
    "values of uniform depth; MAY: inner pairing of a regular multi-dimensional value with a flat list")
reg("C05", "differential monitor: two spellings of one splitter run on the real engine must give identical event logs and outputs; malformed requests must raise with zero body starts",
    "Pairs (tree, re-spelled tree) as plain task and as workflow node with an upstream state, plus 7 kinds of ill-formed requests; model-free equality / zero-start oracle; held on the pairs executed.",
    "re-spellings limited to one-element wrapping and same-operator re-bracketing, as in the statement")
reg("C14", "controlled completion orders through a gated process-pool worker; MUST-run / MUST-NOT sets checked on the event log; error text checked",
    "Gated workflows with failing jobs are run through the real async loop with chosen release orders, including orders where other jobs finish while the failing job is still executing; independent jobs must complete, consumers of failed jobs must not start, the error must name every failed job.",
    "schedule coverage = the release orders executed (reported), not all OS interleavings; per-node blocking downstream of a partially failed node is in the MAY class")
reg("C15", "happens-before check on the totally ordered multi-process event log (start(J) after end(U) for every consumed U; start counts)",
    "C03 graphs under the sequential loop, the async loop and the async loop with controller-chosen completion orders; consumed jobs are identified by sub-terms; held on the logs observed.",
    "duplicate-identity nodes may share one execution (1..multiplicity starts)")
reg("C16", "gated process-pool worker exposes every launched body simultaneously; running maximum over log prefixes <= k",
    "Workflows of 3-10 independent/chained/split gated jobs under limits k=1..n and random/fifo/lifo release orders with n_procs >= jobs; the number of bodies between start and end in the ordered log never exceeds k on the runs executed.",
    "nested workflows not in the workload; pool size >= job count")
reg("C17", "differential monitor across workers, process counts, limits and chosen completion orders (deep equality of outputs)",
    "Each generated workflow is run under debug, cf with 1/2/8 processes, concurrency limits and gated release orders in fresh caches; all outputs must be equal (and equal to the reference where it applies).",
    "configurations listed in evidence; schedule coverage = executed release orders")
reg("C18", "lasso (repeated loop state) detectors hooked on DiGraph._sorting and on the sequential execution loop, plus an inconclusive-only wall-clock watchdog",
    "Liveness restated as bounded progress: generated graphs with back-edges (self-loop, 2-cycle, long cycle, off-path cycle, an earlier node waiting for a cycle, typed/untyped, acyclic re-wiring) and an unstable-hash 'cannot progress' family are submitted to the real engine; every submission must end with outputs or an error, a repeated no-progress loop state is a violation with the state as witness, and so is a busy loop elsewhere (40 s of user CPU after imports with the main thread inside one pydra function on 10 consecutive stack samples).",
    "hangs outside the two monitored loops would surface as inconclusive (watchdog), not as violations")
reg("C10", "multi-process stress with seeded delay injection (sys.monitoring LINE failpoints) at every statement of the job/cache protocol; exactly-once + payload-integrity oracle over the shared event log",
    "2-4 real submitter processes race on one task in a shared cache root (with/without an existing result, fast/slow body, debug/cf) while per-process seeded delays are injected between the critical sections; exactly one body start, every submitter gets the full payload (length + digest); the number of distinct cross-process checkpoint interleavings observed is reported.",
    "interleavings inside a single statement are left to the OS; held on the interleavings observed only")
reg("C11", "history monitor: event-log execution counts per step vs a cache-protocol model; recursive snapshots of read-only caches and of everything outside the cache root",
    "Random histories of submissions (tasks and workflows sharing a node identity, rerun/propagate flags, read-only lists, planted incomplete directories) run on the real engine; the model predicts the exact body executions per step; read-only caches must stay byte-identical.",
    "deterministic term tasks; model of ~25 lines written from the statement")
reg("C12", "crash-point enumeration from a recorded sys.monitoring trace (os._exit before each LINE event) + result-file truncation, each followed by a real resubmission in a fresh process; step-counted dead-lock-holder lasso detector",
    "Every (thorough) / every n-th (quick) statement boundary on the execution path of 7 scenarios is a crash point; every truncation length of a python task's result file (thorough); the resubmission must return the complete correct output or (failing task) raise, and must not wait on a lock whose holder is dead.",
    "crash points are statement boundaries of the traced functions + truncation lengths; a wall-clock watchdog is inconclusive-only", category="fault_enumeration")
reg("C29", "cross-interpreter round trip (cloudpickle -> fresh subprocess with another PYTHONHASHSEED) with differential comparison of identity, outputs, read-back result and configuration",
    "Tasks, jobs, submitters (with worker/limits/read-only caches/audit flags) and results are serialised in the harness process and exercised in a fresh interpreter: same cache identity, same outputs as a parent-side run, result written by the child read back equal by the parent.",
    "task definitions importable in the child (as user modules are)")
reg("C30", "history monitor over construct/run/set/fresh-run operations in one process and cache root; outputs vs reference for the inputs in force; leak check on constructed node inputs",
    "Random histories over task objects of an interpreted workflow whose graph depends on every input; after each run the outputs must equal the nested-loop reference for the current inputs; constructed node inputs must be lazy or hold the current value.",
    "3 workflow specs x 3 values per input; construction cache never cleared inside a history")
reg("C35", "exception-injection enumeration (InjectedFault before every statement-with-a-call on the recorded Job.run path) + raising hooks/unpicklable outputs + histories with counting TaskHooks; post-run invariants on cwd, info files, job directory",
    "After every run (ok, failed, interrupted at each enumerated point) the cwd is restored, no <uid>_info.json is left, a job directory holds its record and result, and hooks fire exactly once per real execution and never on a cache hit.",
    "faults at statement boundaries under the sequential worker; the writers' own failures are exempt from the record/result requirement", category="fault_enumeration")
