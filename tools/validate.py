#!/venv/bin/python
"""Validate MANIFEST.json and every evidence file against the schemas in /root/.vp."""
import json, sys, glob
from pathlib import Path
HERE = Path(__file__).resolve().parent.parent
sys.path.append(str(HERE / ".deps"))
import jsonschema
S = Path("/root/.vp")
rc = 0
def val(doc, schema, name):
    global rc
    try:
        jsonschema.validate(json.loads(Path(doc).read_text()), json.loads((S / schema).read_text()))
        print("ok  ", name)
    except Exception as e:
        rc = 1
        print("BAD ", name, str(e)[:400])
val(HERE / "MANIFEST.json", "MANIFEST.schema.json", "MANIFEST.json")
for f in sorted(glob.glob(str(HERE / "evidence" / "*.json"))):
    val(f, "EVIDENCE.schema.json", f)
m = json.loads((HERE / "MANIFEST.json").read_text())
props = [json.loads(l)["id"] for l in (HERE / "properties.jsonl").read_text().splitlines() if l.strip()]
claimed = [c["property_id"] for c in m["checks"]]
na = [c["property_id"] for c in m.get("not_applicable", [])]
missing = [p for p in props if p not in claimed and p not in na]
if missing:
    rc = 1
    print("BAD  properties neither claimed nor not_applicable:", missing)
sys.exit(rc)
