#!/usr/bin/env python3
"""Regenerate MANIFEST.json from the registry below (one entry per claimed property)."""
import json
from pathlib import Path
HERE = Path(__file__).resolve().parent.parent
props = [json.loads(l) for l in (HERE / "properties.jsonl").read_text().splitlines() if l.strip()]

# id -> (category, technique, text, note)
R = {}
def reg(pid, technique, text, note, category="exploration"):
    R[pid] = (category, technique, text, note)

exec((HERE / "tools" / "registry.py").read_text())
INTEGRATED = set(json.loads((HERE / "tools" / "integrated.json").read_text()))
for f in sorted((HERE / "tools" / "registry.d").glob("*.py")):
    if f.stem.upper() in INTEGRATED:   # entries written by check authors, enabled once reviewed
        exec(f.read_text())

checks = []
for p in props:
    pid = p["id"]
    if pid not in R:
        continue
    cat, tech, text, note = R[pid]
    checks.append({
        "property_id": pid,
        "quick_cmd": f"./check {pid} --tier quick",
        "thorough_cmd": f"./check {pid} --tier thorough",
        "evidence_file": f"/verif/evidence/{pid}.json",
        "replay_cmd_template": f"./check {pid} --replay {{path}}",
        "engine": "vp",
        "level_claimed": {"category": cat, "text": text, "design_ref": f"DESIGN.md §3 {pid}"},
        "level_note": note,
        "technique": tech,
    })
NA = json.loads((HERE / "tools" / "not_applicable.json").read_text())
na = [{"property_id": p["id"], "reason": NA.get(p["id"], "not claimed yet: the runtime monitor for this property (DESIGN.md §3) is not built/validated in this commit")}
      for p in props if p["id"] not in R]
hooks = json.loads((HERE / "tools" / "hooks.json").read_text())
m = {
    "version": 1,
    "setup_cmd": "sh ./setup.sh",
    "hooks": hooks,
    "engines": [{"name": "vp", "path": "/verif/vp", "serves_properties": sorted(R),
                 "kind_free_text": "runtime monitoring harness: generated/hostile workloads run against the real pydra in /repo inside worker subprocesses; oracles over observed events (event logs, returned values, argv received by fake executables, file-system snapshots), reference models used only as oracles; sys.monitoring failpoints; gated process-pool worker for chosen schedules"}],
    "checks": checks,
    "not_applicable": na,
    "notes": "All checks: ./check <id> --tier quick|thorough [--seed N]; honour VERIF_SEED/VERIF_TIER; exit 0 held (KNOWN-FINDING lines for open entries of known_findings.json), exit 1 + VIOLATION line, exit 2 + INCONCLUSIVE line when the deciding monitor was not reached. Compiler sanitizers/valgrind are not used: pydra is pure Python (DESIGN.md §0).",
}
(HERE / "MANIFEST.json").write_text(json.dumps(m, indent=1) + "\n")
print("claimed", len(checks), "not claimed", len(na))
