#!/usr/bin/env python3
"""tools/integrate.py CXX mech=commit|open ...   -> merge proposed/findings-CXX.json into known_findings.json
(mech=<commit> marks it fixed by that /repo commit, mech=open keeps it open) and enable the registry entry."""
import json, sys
from pathlib import Path
H = Path(__file__).resolve().parent.parent
prop = sys.argv[1]
status = dict(a.split("=", 1) for a in sys.argv[2:])
kf = json.loads((H / "known_findings.json").read_text())
pf = H / "proposed" / f"findings-{prop}.json"
entries = json.loads(pf.read_text())["findings"] if pf.exists() else []
have = {(e["property"], e["id"]) for e in kf["findings"]}
for e in entries:
    if (e["property"], e["id"]) in have:
        continue
    st = status.get(e["id"])
    if st is None:
        sys.exit(f"no status given for {e['id']}")
    if st == "open":
        kf["findings"].append({"property": e["property"], "id": e["id"], "status": "open", "what": e["what"]})
    else:
        kf["findings"].append({"property": e["property"], "id": e["id"], "status": "fixed",
                               "line": f"fixed: property={e['property']} {st} {e['what']}", "what": e["what"]})
(H / "known_findings.json").write_text(json.dumps(kf, indent=1) + "\n")
if pf.exists():
    pf.unlink()
ig = H / "tools" / "integrated.json"
l = json.loads(ig.read_text())
if prop not in l:
    l.append(prop)
ig.write_text(json.dumps(sorted(l)) + "\n")
print("integrated", prop, [e["id"] for e in entries])
