#!/usr/bin/env python3
"""print a markdown table of known_findings.json for DESIGN.md §8.3"""
import json
from pathlib import Path
H = Path(__file__).resolve().parent.parent
kf = json.loads((H / "known_findings.json").read_text())["findings"]
rows = {}
for e in kf:
    key = (e["id"], e["status"], (e.get("line", "").split()[2] if e["status"] == "fixed" else ""))
    rows.setdefault(key, {"props": [], "what": e["what"]})["props"].append(e["property"])
print("| mechanism | properties | status | what fails |")
print("|---|---|---|---|")
for (mid, st, commit), v in sorted(rows.items(), key=lambda kv: (kv[0][1] != "open", min(kv[1]["props"]), kv[0][0])):
    status = "**open**" if st == "open" else f"fixed `{commit}`"
    print(f"| `{mid}` | {', '.join(sorted(set(v['props'])))} | {status} | {v['what'][:230].replace('|', '/')} |")
