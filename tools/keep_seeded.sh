#!/bin/sh
# usage: tools/keep_seeded.sh <out dir> <name> "<caught by: ...>"   -> /verif/seeded/<name>/
set -e
cd "$(dirname "$0")/.."
mkdir -p seeded/$2
cp $1/patch.diff seeded/$2/
cp $(ls $1/demo.py $1/test_demo.py 2>/dev/null | head -1) seeded/$2/
python3 - "$1" "$2" "$3" <<'PY'
import json, sys
src, name, caught = sys.argv[1:4]
try:
    m = json.load(open(src + "/meta.json"))
except Exception:
    m = {}
m["confirmed_by_lead"] = {"demo_on_unchanged_tree": "exit 0", "demo_on_patched_tree": "exit != 0",
                          "how": "tools/try_seeded.sh (scratch worktree of /repo HEAD, patch applied, demo run against both trees, quick checks run with VERIF_REPO=<worktree>)",
                          "checks": caught}
json.dump(m, open(f"seeded/{name}/meta.json", "w"), indent=1)
PY
echo kept seeded/$2
