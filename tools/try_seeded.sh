#!/bin/sh
# usage: tools/try_seeded.sh <dir with patch.diff + demo.py> <check ids...>
# Applies the patch to a scratch worktree of /repo HEAD, confirms the demo fails with it and passes
# without it, runs the given quick checks against the patched tree, removes the worktree.
set -u
d=$(cd "$1" && pwd); shift
wt=/tmp/wt-seeded-$$
cd "$(dirname "$0")/.."
tools/mkworktree.sh $wt >/dev/null || exit 3
demo=$(ls $d/demo.py $d/test_demo.py 2>/dev/null | head -1)
echo "== demo on unchanged tree"; (cd /tmp && PYDRA_TREE=/repo PYTHONPATH=/repo NO_ET=true timeout 600 /venv/bin/python $demo >/tmp/seeded-demo-clean.$$ 2>&1; echo "rc=$?")
if ! git -C $wt apply $d/patch.diff; then echo "PATCH DOES NOT APPLY"; git -C /repo worktree remove --force $wt; exit 4; fi
echo "== demo on patched tree"; (cd /tmp && PYDRA_TREE=$wt PYTHONPATH=$wt NO_ET=true timeout 600 /venv/bin/python $demo >/tmp/seeded-demo-patched.$$ 2>&1; echo "rc=$?")
for c in "$@"; do
  VERIF_REPO=$wt ./check $c --tier quick > /tmp/seeded-$c.$$ 2>&1; rc=$?
  echo "== check $c on patched tree: rc=$rc $(grep -c '^VIOLATION' /tmp/seeded-$c.$$) VIOLATION lines; $(grep '^\[' /tmp/seeded-$c.$$ | cut -c1-160)"
done
git -C /repo worktree remove --force $wt
